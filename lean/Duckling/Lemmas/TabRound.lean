import Duckling.Model.TabParse
/-
  Round trip of the indentation parser (C03): parsing the rendering of a block tree gives the tree
  back — for every tree, every indent unit, every numbering, and blank lines anywhere.
-/
namespace Duckling

/-- a numbered block tree: a line and the block under it -/
inductive NT where
  | node (l : PreLine) (kids : List NT)
deriving Inhabited

def indent (u : Str) : Nat → Str
  | 0 => []
  | d + 1 => u ++ indent u d

mutual
/-- the physical lines of a forest written at depth `d` with unit `u` (numbers as given) -/
def lines (u : Str) : Nat → List NT → List PreLine
  | _, [] => []
  | d, n :: rest => linesNode u d n ++ lines u d rest
def linesNode (u : Str) : Nat → NT → List PreLine
  | d, .node l kids => ⟨indent u d ++ l.content, l.num⟩ :: lines u (d + 1) kids
end

mutual
/-- the parse result the forest denotes -/
def toNodes : List NT → List Node
  | [] => []
  | n :: rest => toNodesNode n ++ toNodes rest
def toNodesNode : NT → List Node
  | .node l [] => [.line l]
  | .node l (k :: ks) => [.line l, .block (toNodes (k :: ks))]
end

mutual
def height : List NT → Nat
  | [] => 0
  | n :: rest => max (heightNode n) (height rest)
def heightNode : NT → Nat
  | .node _ kids => height kids + 1
end

/-- well-formed text of a line: not blank, does not start with a blank, is not a triple-quote line -/
def GoodText (t : Str) : Prop :=
  isBlank t = false ∧ (∀ c, t.head? = some c → isSpace c = false) ∧ startsWith tripleQuote t = false

mutual
def GoodForest : List NT → Prop
  | [] => True
  | n :: rest => GoodNode n ∧ GoodForest rest
def GoodNode : NT → Prop
  | .node l kids => GoodText l.content ∧ GoodForest kids
end

/-- a valid indent unit: a non-empty string of spaces and tabs -/
def GoodUnit (u : Str) : Prop := u ≠ [] ∧ ∀ c ∈ u, c = ' ' ∨ c = '\t'

theorem goodUnit_space {u : Str} (hu : GoodUnit u) : ∀ c ∈ u, isSpace c = true := by
  intro c hc
  rcases hu.2 c hc with rfl | rfl <;> decide

theorem startsWith_append (u t : Str) : startsWith u (u ++ t) = true := by
  induction u with
  | nil => simp [startsWith]
  | cons c cs ih => simpa [startsWith, List.isPrefixOf] using ih

theorem drop_unit (u t : Str) : (u ++ t).drop u.length = t := by simp

theorem goodText_ne_nil {t : Str} (h : GoodText t) : t ≠ [] := by
  intro e; subst e; simp [GoodText, isBlank] at h

theorem goodText_head {t : Str} (h : GoodText t) : ∃ c rest, t = c :: rest ∧ isSpace c = false := by
  cases t with
  | nil => exact absurd rfl (goodText_ne_nil h)
  | cons c rest => exact ⟨c, rest, rfl, h.2.1 c rfl⟩

/-- a good text is not indented, whatever unit is known -/
theorem hasTab_head (t : Str) (tab : Option Str) (n : Nat) (u : Str) (hu : GoodUnit u) (ht : GoodText t)
    (htab : tab = none ∨ tab = some u) : hasTab t tab n = .ok .no := by
  obtain ⟨c, rest, rfl, hc⟩ := goodText_head ht
  rcases htab with rfl | rfl
  · have h1 : c ≠ ' ' := by intro e; subst e; simp [isSpace] at hc
    have h2 : c ≠ '\t' := by intro e; subst e; simp [isSpace] at hc
    have : ∀ (s : Str), s = c :: rest → hasTab s none n = .ok .no := by
      intro s hs
      unfold hasTab
      simp only []
      split
      · rename_i tl; exact absurd (List.cons.inj hs).1.symm h1
      · rename_i tl; exact absurd (List.cons.inj hs).1.symm h2
      · rfl
    exact this _ rfl
  · obtain ⟨d, ds, rfl⟩ : ∃ d ds, u = d :: ds := by
      cases u with
      | nil => exact absurd rfl hu.1
      | cons d ds => exact ⟨d, ds, rfl⟩
    have hd : isSpace d = true := goodUnit_space hu d (by simp)
    have hne : d ≠ c := by intro e; subst e; simp [hd] at hc
    have : startsWith (d :: ds) (c :: rest) = false := by
      simp [startsWith, List.isPrefixOf, hne]
    simp [hasTab, this, hc]

theorem isBlank_indent_append (u : Str) (k : Nat) (t : Str) (ht : isBlank t = false) : isBlank (indent u k ++ t) = false := by
  simp only [isBlank, List.all_append, Bool.and_eq_false_imp] at ht ⊢
  intro _; exact ht

theorem takeWhile_unit (u t : Str) (hu : GoodUnit u) (ht : GoodText t) : (u ++ t).takeWhile isSpace = u := by
  obtain ⟨c, rest, rfl, hc⟩ := goodText_head ht
  rw [List.takeWhile_append_of_pos (fun x hx => goodUnit_space hu x hx)]
  simp [List.takeWhile, hc]

theorem startsWith_triple_indent (u : Str) (hu : GoodUnit u) (k : Nat) (t : Str) :
    startsWith tripleQuote (indent u (k + 1) ++ t) = false := by
  obtain ⟨d, ds, rfl⟩ : ∃ d ds, u = d :: ds := by
    cases u with
    | nil => exact absurd rfl hu.1
    | cons d ds => exact ⟨d, ds, rfl⟩
  have hd : d ≠ '"' := by
    rcases hu.2 d (by simp) with rfl | rfl <;> decide
  simp [indent, startsWith, tripleQuote, List.isPrefixOf, Ne.symm hd]

end Duckling

namespace Duckling

theorem goLines_append (rec : ParseFn) (c : Nat) (a b : List PreLine) (st : PState) :
    goLines rec c (a ++ b) st =
      (match goLines rec c a st with
       | .ok st' => goLines rec (c + a.length) b st'
       | .error e => .error e) := by
  induction a generalizing c st with
  | nil => simp [goLines]
  | cons x xs ih =>
    simp only [List.cons_append, goLines, List.length_cons]
    cases stepLine rec c x st with
    | error e => rfl
    | ok st' =>
      simp only []
      rw [ih]
      have : c + 1 + xs.length = c + (xs.length + 1) := by omega
      rw [this]

/-- a line of good text at the block's own level -/
theorem stepLine_head (rec : ParseFn) (c : Nat) (l : PreLine) (st : PState) (u : Str) (hu : GoodUnit u)
    (ht : GoodText l.content) (hfree : st.free = 0) (htab : st.tab = none ∨ st.tab = some u) :
    stepLine rec c l st =
      (if st.conv.isEmpty then .ok { st with seen := true, ret := .line l :: st.ret }
       else match rec st.conv.reverse st.tab with
         | .error e => .error e
         | .ok b => .ok { st with seen := true, conv := [], ret := .line l :: .block b :: st.ret }) := by
  have h1 := hasTab_head l.content st.tab l.num u hu ht htab
  simp only [stepLine, ht.1, ht.2.2, hfree, h1, Bool.false_eq_true, if_false, Bool.false_and, bne_self_eq_false]
  split <;> rfl

/-- an indented line when the unit is known -/
theorem stepLine_indented (rec : ParseFn) (c : Nat) (n : Nat) (t : Str) (k : Nat) (st : PState) (u : Str) (hu : GoodUnit u)
    (ht : GoodText t) (hfree : st.free = 0) (hseen : st.seen = true) (htab : st.tab = some u) :
    stepLine rec c ⟨indent u (k + 1) ++ t, n⟩ st = .ok { st with conv := ⟨indent u k ++ t, n⟩ :: st.conv } := by
  have hnb : isBlank (indent u (k + 1) ++ t) = false := isBlank_indent_append u (k + 1) t ht.1
  have hq := startsWith_triple_indent u hu k t
  have hst : startsWith u (indent u (k + 1) ++ t) = true := by
    simp only [indent, List.append_assoc]; exact startsWith_append u _
  have hdrop : (indent u (k + 1) ++ t).drop u.length = indent u k ++ t := by
    simp only [indent, List.append_assoc]; exact drop_unit u _
  simp [stepLine, hnb, hq, hfree, hseen, htab, hasTab, hst, hdrop]

/-- the first indented line of a file discovers the unit -/
theorem stepLine_discover (rec : ParseFn) (c : Nat) (n : Nat) (t : Str) (st : PState) (u : Str) (hu : GoodUnit u)
    (ht : GoodText t) (hfree : st.free = 0) (hseen : st.seen = true) (htab : st.tab = none) :
    stepLine rec c ⟨indent u 1 ++ t, n⟩ st = .ok { st with tab := some u, conv := ⟨t, n⟩ :: st.conv } := by
  have hnb : isBlank (indent u 1 ++ t) = false := isBlank_indent_append u 1 t ht.1
  have hq := startsWith_triple_indent u hu 0 t
  obtain ⟨d, ds, hud⟩ : ∃ d ds, u = d :: ds := by
    cases u with
    | nil => exact absurd rfl hu.1
    | cons d ds => exact ⟨d, ds, rfl⟩
  have hcont : indent u 1 ++ t = u ++ t := by simp [indent]
  have htw := takeWhile_unit u t hu ht
  have hht : hasTab (u ++ t) none n = .ok (.discovered u) := by
    rcases hu.2 d (by simp [hud]) with hd | hd
    · subst hud; subst hd
      simp only [hasTab, List.cons_append]
      rw [← List.cons_append, htw]
    · subst hud; subst hd
      simp only [hasTab, List.cons_append]
      rw [← List.cons_append, htw]
  rw [hcont] at hnb hq ⊢
  simp [stepLine, hnb, hq, hfree, hseen, htab, hht]

mutual
/-- the lines below a node all go, one unit shorter, into the pending block -/
theorem go_desc (rec : ParseFn) (u : Str) (hu : GoodUnit u) (ks : List NT) (d c : Nat) (st : PState)
    (hg : GoodForest ks) (htab : st.tab = some u) (hfree : st.free = 0) (hseen : st.seen = true) :
    goLines rec c (lines u (d + 1) ks) st = .ok { st with conv := (lines u d ks).reverse ++ st.conv } := by
  match ks with
  | [] => simp [lines, goLines]
  | n :: rest =>
    simp only [lines, GoodForest] at hg ⊢
    rw [goLines_append, go_desc_node rec u hu n d c st hg.1 htab hfree hseen]
    simp only []
    have := go_desc rec u hu rest d (c + (linesNode u (d + 1) n).length)
      { st with conv := (linesNode u d n).reverse ++ st.conv } hg.2 htab hfree hseen
    rw [this]
    simp [List.reverse_append, List.append_assoc]
theorem go_desc_node (rec : ParseFn) (u : Str) (hu : GoodUnit u) (n : NT) (d c : Nat) (st : PState)
    (hg : GoodNode n) (htab : st.tab = some u) (hfree : st.free = 0) (hseen : st.seen = true) :
    goLines rec c (linesNode u (d + 1) n) st = .ok { st with conv := (linesNode u d n).reverse ++ st.conv } := by
  match n with
  | .node l kids =>
    simp only [linesNode, GoodNode] at hg ⊢
    simp only [goLines]
    rw [stepLine_indented rec c l.num l.content d st u hu hg.1 hfree hseen htab]
    simp only []
    have := go_desc rec u hu kids (d + 1) (c + 1)
      { st with conv := ⟨indent u d ++ l.content, l.num⟩ :: st.conv } hg.2 htab hfree hseen
    rw [this]
    simp [List.reverse_cons, List.append_assoc]
end

end Duckling

namespace Duckling

def flushed : List NT → List Node
  | [] => []
  | k :: ks => [.block (toNodes (k :: ks))]

theorem toNodesNode_eq (l : PreLine) (kids : List NT) : toNodesNode (.node l kids) = .line l :: flushed kids := by
  cases kids <;> rfl

theorem lines_ne_nil (u : Str) (d : Nat) (f : List NT) (hf : f ≠ []) : lines u d f ≠ [] := by
  cases f with
  | nil => exact absurd rfl hf
  | cons n rest => cases n; simp [lines, linesNode]

/-- the lines under a top-level line, whether or not the unit is known yet -/
theorem go_kids (rec : ParseFn) (u : Str) (hu : GoodUnit u) (kids : List NT) (c : Nat) (st : PState)
    (hg : GoodForest kids) (htab : st.tab = none ∨ st.tab = some u) (hfree : st.free = 0) (hseen : st.seen = true) :
    goLines rec c (lines u 1 kids) st =
      .ok { st with tab := if kids.isEmpty then st.tab else some u, conv := (lines u 0 kids).reverse ++ st.conv } := by
  rcases htab with htab | htab
  · cases kids with
    | nil => simp [lines, goLines]
    | cons k ks =>
      obtain ⟨l, kk⟩ := k
      simp only [lines, linesNode, GoodForest, GoodNode] at hg ⊢
      simp only [List.cons_append, goLines]
      rw [stepLine_discover rec c l.num l.content st u hu hg.1.1 hfree hseen htab]
      simp only []
      rw [goLines_append]
      have h1 := go_desc rec u hu kk 1 (c + 1) { st with tab := some u, conv := ⟨l.content, l.num⟩ :: st.conv } hg.1.2 rfl hfree hseen
      rw [h1]
      simp only []
      have h2 := go_desc rec u hu ks 0 (c + 1 + (lines u (1 + 1) kk).length)
        { st with tab := some u, conv := (lines u 1 kk).reverse ++ ⟨l.content, l.num⟩ :: st.conv } hg.2 rfl hfree hseen
      rw [h2]
      simp [indent, List.reverse_append, List.append_assoc]
  · have := go_desc rec u hu kids 0 c st hg htab hfree hseen
    rw [this]
    cases kids <;> simp [htab]

theorem isEmpty_conv_of_pend (u : Str) (st : PState) (pend : List NT) (hconv : st.conv = (lines u 0 pend).reverse) :
    st.conv.isEmpty = pend.isEmpty := by
  cases pend with
  | nil => simp [hconv, lines]
  | cons p ps =>
    have := lines_ne_nil u 0 (p :: ps) (by simp)
    cases hc : (lines u 0 (p :: ps)) with
    | nil => exact absurd hc this
    | cons x xs => simp [hconv, hc]

/-- the head line of a node: the pending block of the previous node is closed, the line is appended -/
theorem head_step (rec : ParseFn) (u : Str) (hu : GoodUnit u) (h : Nat)
    (hrec : ∀ pk, GoodForest pk → height pk ≤ h → rec (lines u 0 pk) (some u) = .ok (toNodes pk))
    (c : Nat) (l : PreLine) (hl : GoodText l.content) (st : PState) (pend : List NT) (hpg : GoodForest pend) (hph : height pend ≤ h)
    (hfree : st.free = 0) (hconv : st.conv = (lines u 0 pend).reverse)
    (htab : st.tab = none ∨ st.tab = some u) (hpt : pend ≠ [] → st.tab = some u ∧ st.seen = true) :
    ∃ st1, stepLine rec c l st = .ok st1 ∧ st1.free = 0 ∧ st1.conv = [] ∧ st1.tab = st.tab ∧
      st1.seen = true ∧ st1.ret.reverse = st.ret.reverse ++ flushed pend ++ [.line l] := by
  have hhead := stepLine_head rec c l st u hu hl hfree htab
  have hemp := isEmpty_conv_of_pend u st pend hconv
  cases pend with
  | nil =>
    have hc : st.conv = [] := by simpa [lines] using hconv
    refine ⟨{ st with seen := true, ret := .line l :: st.ret }, ?_, hfree, hc, rfl, rfl, by simp [flushed]⟩
    rw [hhead]; simp [hc]
  | cons p ps =>
    have ht := (hpt (by simp)).1
    have hne : st.conv.isEmpty = false := by simpa using hemp
    have hr : rec st.conv.reverse st.tab = .ok (toNodes (p :: ps)) := by
      rw [hconv, List.reverse_reverse, ht]; exact hrec _ hpg hph
    refine ⟨{ st with seen := true, conv := [], ret := .line l :: .block (toNodes (p :: ps)) :: st.ret }, ?_, hfree, rfl, rfl, rfl,
      by simp [flushed]⟩
    rw [hhead]; simp [hne, hr]

/-- the loop over the lines of a forest written at the block's own level -/
theorem go_top (rec : ParseFn) (u : Str) (hu : GoodUnit u) (h : Nat)
    (hrec : ∀ pk, GoodForest pk → height pk ≤ h → rec (lines u 0 pk) (some u) = .ok (toNodes pk))
    (f : List NT) (hg : GoodForest f) (hh : ∀ n ∈ f, heightNode n ≤ h + 1)
    (c : Nat) (st : PState) (pend : List NT) (hpg : GoodForest pend) (hph : height pend ≤ h)
    (hfree : st.free = 0) (hconv : st.conv = (lines u 0 pend).reverse)
    (htab : st.tab = none ∨ st.tab = some u) (hpt : pend ≠ [] → st.tab = some u ∧ st.seen = true) :
    ∃ st' pend', goLines rec c (lines u 0 f) st = .ok st' ∧ GoodForest pend' ∧ height pend' ≤ h ∧
      st'.free = 0 ∧ st'.conv = (lines u 0 pend').reverse ∧ (st'.tab = none ∨ st'.tab = some u) ∧
      (pend' ≠ [] → st'.tab = some u ∧ st'.seen = true) ∧
      st'.ret.reverse ++ flushed pend' = st.ret.reverse ++ flushed pend ++ toNodes f := by
  induction f generalizing c st pend with
  | nil => exact ⟨st, pend, by simp [lines, goLines], hpg, hph, hfree, hconv, htab, hpt, by simp [toNodes]⟩
  | cons n rest ih =>
    obtain ⟨l, kids⟩ := n
    simp only [GoodForest, GoodNode] at hg
    have hkh : height kids ≤ h := by
      have := hh (.node l kids) (by simp)
      simp only [heightNode] at this; omega
    obtain ⟨st1, hst1, hfree1, hconv1, htab1, hseen1, hret1⟩ :=
      head_step rec u hu h hrec c l hg.1.1 st pend hpg hph hfree hconv htab hpt
    have hkids := go_kids rec u hu kids (c + 1) st1 hg.1.2 (by rw [htab1]; exact htab) hfree1 hseen1
    have hl : (⟨[] ++ l.content, l.num⟩ : PreLine) = l := rfl
    simp only [lines, linesNode, indent, List.cons_append, goLines, hl, hst1]
    rw [goLines_append, hkids]
    simp only []
    have := ih hg.2 (fun n hn => hh n (List.mem_cons_of_mem _ hn)) (c + 1 + (lines u 1 kids).length)
      { st1 with tab := if kids.isEmpty then st1.tab else some u, conv := (lines u 0 kids).reverse ++ st1.conv }
      kids hg.1.2 hkh hfree1 (by simp [hconv1])
      (by cases kids <;> simp [htab1] <;> exact htab)
      (by intro hk; cases kids with
          | nil => exact absurd rfl hk
          | cons _ _ => exact ⟨by simp, hseen1⟩)
    obtain ⟨st', pend', h1, h2, h3, h4, h5, h6, h7, h8⟩ := this
    refine ⟨st', pend', h1, h2, h3, h4, h5, h6, h7, ?_⟩
    rw [h8]
    simp only [hret1, toNodes, toNodesNode_eq, List.append_assoc, List.cons_append, List.nil_append]

/-- C03 round trip, any fuel above the height of the forest -/
theorem parseFuel_lines (u : Str) (hu : GoodUnit u) (H : Nat) :
    ∀ fuel, H < fuel → ∀ f, GoodForest f → height f ≤ H → ∀ tab, (tab = none ∨ tab = some u) →
      parseFuel fuel (lines u 0 f) tab = .ok (toNodes f) := by
  induction H with
  | zero =>
    intro fuel hf f hg hh tab _
    have : f = [] := by
      cases f with
      | nil => rfl
      | cons n rest => cases n; simp [height, heightNode] at hh
    subst this
    cases fuel with
    | zero => omega
    | succ k => simp [parseFuel, lines, goLines, finishParse, toNodes]
  | succ H ih =>
    intro fuel hf f hg hh tab htab
    cases fuel with
    | zero => omega
    | succ k =>
      have hrec : ∀ pk, GoodForest pk → height pk ≤ H → parseFuel k (lines u 0 pk) (some u) = .ok (toNodes pk) :=
        fun pk hpg hph => ih k (by omega) pk hpg hph (some u) (Or.inr rfl)
      have hnodes : ∀ n ∈ f, heightNode n ≤ H + 1 := by
        intro n hn
        have : ∀ (g : List NT), n ∈ g → heightNode n ≤ height g := by
          intro g; induction g with
          | nil => intro h; cases h
          | cons x xs ihx =>
            intro h; simp only [height]
            rcases List.mem_cons.mp h with rfl | h
            · exact Nat.le_max_left _ _
            · exact Nat.le_trans (ihx h) (Nat.le_max_right _ _)
        exact Nat.le_trans (this f hn) hh
      obtain ⟨st', pend', h1, h2, h3, h4, h5, h6, h7, h8⟩ :=
        go_top (parseFuel k) u hu H hrec f hg hnodes 0 { tab := tab } [] trivial (by simp [height]) rfl (by simp [lines]) htab (by simp)
      simp only [parseFuel, h1, finishParse, h4, bne_self_eq_false, Bool.false_eq_true, if_false]
      simp only [List.reverse_nil, flushed, List.nil_append, List.append_nil] at h8
      have hemp := isEmpty_conv_of_pend u st' pend' h5
      cases pend' with
      | nil =>
        have : st'.conv.isEmpty = true := by simpa using hemp
        simp only [this, if_true]
        simpa [flushed] using h8
      | cons p ps =>
        have hne : st'.conv.isEmpty = false := by simpa using hemp
        have ht := (h7 (by simp)).1
        have hr : parseFuel k st'.conv.reverse st'.tab = .ok (toNodes (p :: ps)) := by
          rw [h5, List.reverse_reverse, ht]; exact hrec _ h2 h3
        simp only [hne, Bool.false_eq_true, if_false, hr, List.reverse_cons]
        rw [← h8]

end Duckling

namespace Duckling

/-- the position of a line in its block matters only for triple-quote lines -/
theorem stepLine_count_irrelevant (rec : ParseFn) (c c' : Nat) (l : PreLine) (st : PState)
    (hq : startsWith tripleQuote l.content = false) : stepLine rec c l st = stepLine rec c' l st := by
  simp [stepLine, hq]

theorem goLines_count_irrelevant (rec : ParseFn) (c c' : Nat) (ls : List PreLine) (st : PState)
    (hq : ∀ l ∈ ls, startsWith tripleQuote l.content = false) : goLines rec c ls st = goLines rec c' ls st := by
  induction ls generalizing c c' st with
  | nil => rfl
  | cons l rest ih =>
    simp only [goLines]
    rw [stepLine_count_irrelevant rec c c' l st (hq l (by simp))]
    cases stepLine rec c' l st with
    | error e => rfl
    | ok st' => exact ih _ _ _ (fun x hx => hq x (List.mem_cons_of_mem _ hx))

theorem isBlank_not_quote (s : Str) (h : isBlank s = true) : startsWith tripleQuote s = false := by
  cases s with
  | nil => rfl
  | cons c cs =>
    have hc : isSpace c = true := by simp [isBlank] at h; exact h.1
    have : c ≠ '"' := by intro e; subst e; simp [isSpace] at hc
    simp [startsWith, tripleQuote, List.isPrefixOf, Ne.symm this]

/-- blank and whitespace-only lines can be dropped (when no line starts a triple-quote region) -/
theorem goLines_filter_blank (rec : ParseFn) (c : Nat) (ls : List PreLine) (st : PState)
    (hq : ∀ l ∈ ls, startsWith tripleQuote l.content = false) :
    goLines rec c ls st = goLines rec c (ls.filter (fun l => !isBlank l.content)) st := by
  induction ls generalizing c st with
  | nil => rfl
  | cons l rest ih =>
    by_cases hb : isBlank l.content = true
    · have hs : stepLine rec c l st = .ok st := by simp [stepLine, hb]
      simp only [goLines, hs, List.filter_cons, hb, Bool.not_true, Bool.false_eq_true, if_false]
      rw [ih (c + 1) st (fun x hx => hq x (List.mem_cons_of_mem _ hx))]
      exact goLines_count_irrelevant rec _ _ _ st (fun x hx => hq x (List.mem_cons_of_mem _ (List.mem_filter.mp hx).1))
    · have hb' : isBlank l.content = false := by simpa using hb
      simp only [goLines, List.filter_cons, hb', Bool.not_false, if_true]
      cases stepLine rec c l st with
      | error e => rfl
      | ok st' => exact ih _ _ (fun x hx => hq x (List.mem_cons_of_mem _ hx))

mutual
theorem lines_noquote (u : Str) (hu : GoodUnit u) (d : Nat) (f : List NT) (hg : GoodForest f) :
    ∀ l ∈ lines u d f, startsWith tripleQuote l.content = false ∧ isBlank l.content = false := by
  match f with
  | [] => intro l hl; simp [lines] at hl
  | n :: rest =>
    intro l hl
    simp only [lines, List.mem_append, GoodForest] at hl hg
    rcases hl with hl | hl
    · exact linesNode_noquote u hu d n hg.1 l hl
    · exact lines_noquote u hu d rest hg.2 l hl
theorem linesNode_noquote (u : Str) (hu : GoodUnit u) (d : Nat) (n : NT) (hg : GoodNode n) :
    ∀ l ∈ linesNode u d n, startsWith tripleQuote l.content = false ∧ isBlank l.content = false := by
  match n with
  | .node l0 kids =>
    intro l hl
    simp only [linesNode, List.mem_cons, GoodNode] at hl hg
    rcases hl with rfl | hl
    · refine ⟨?_, isBlank_indent_append u d _ hg.1.1⟩
      cases d with
      | zero => simpa [indent] using hg.1.2.2
      | succ k => exact startsWith_triple_indent u hu k _
    · exact lines_noquote u hu (d + 1) kids hg.2 l hl
end

mutual
theorem height_le_lines (u : Str) (d : Nat) (f : List NT) : height f ≤ (lines u d f).length := by
  match f with
  | [] => simp [height]
  | n :: rest =>
    simp only [height, lines, List.length_append]
    have h1 := heightNode_le_lines u d n
    have h2 := height_le_lines u d rest
    omega
theorem heightNode_le_lines (u : Str) (d : Nat) (n : NT) : heightNode n ≤ (linesNode u d n).length := by
  match n with
  | .node l kids =>
    simp only [heightNode, linesNode, List.length_cons]
    have := height_le_lines u (d + 1) kids
    omega
end

/-- C03 round trip with blank lines anywhere: if the non-blank lines of a numbered text are the rendering of
    a good forest in unit `u`, `parse_document` returns that forest -/
theorem parse_roundtrip (u : Str) (hu : GoodUnit u) (f : List NT) (hg : GoodForest f) (pls : List PreLine)
    (hfilter : pls.filter (fun l => !isBlank l.content) = lines u 0 f) :
    parseFuel (pls.length + 1) pls none = .ok (toNodes f) := by
  have hq' : ∀ l ∈ pls, startsWith tripleQuote l.content = false := by
    intro l hl
    by_cases hb : isBlank l.content = true
    · exact isBlank_not_quote _ hb
    · have hmem : l ∈ lines u 0 f := by
        rw [← hfilter]; exact List.mem_filter.mpr ⟨hl, by simpa using hb⟩
      exact (lines_noquote u hu 0 f hg l hmem).1
  have hlen : (lines u 0 f).length ≤ pls.length := by rw [← hfilter]; exact List.length_filter_le _ _
  have hH := height_le_lines u 0 f
  have key := parseFuel_lines u hu (height f) (pls.length + 1) (by omega) f hg (Nat.le_refl _) none (Or.inl rfl)
  simp only [parseFuel] at key ⊢
  rw [goLines_filter_blank _ 0 pls _ hq', hfilter]
  exact key

end Duckling
