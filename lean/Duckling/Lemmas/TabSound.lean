import Duckling.Model.TabParse
/-
  Soundness of the indentation parser for ARBITRARY input (not only for renderings of a tree, which is `Lemmas/TabRound`):
  whenever `parse_document` succeeds, the code lines of the tree it returns, read in document order (pre-order), are source lines in
  their source order — nothing is invented, duplicated or reordered — and every source line that is not blank and is not a
  triple-quote line is among them: no code line is silently dropped.  Invariant over the line loop (`stepLine` / `goLines`) with the
  recursive call abstracted (`RecSound`), then induction over the recursion.
-/
namespace Duckling

mutual
/-- the code lines of a node in document order -/
def Node.flat : Node → List PreLine
  | .line l => [l]
  | .block ns => flatL ns
def flatL : List Node → List PreLine
  | [] => []
  | n :: rest => n.flat ++ flatL rest
end

@[simp] theorem flatL_nil : flatL [] = [] := by simp [flatL]
@[simp] theorem flatL_cons (n : Node) (rest : List Node) : flatL (n :: rest) = n.flat ++ flatL rest := by simp [flatL]
@[simp] theorem flat_line (l : PreLine) : (Node.line l).flat = [l] := by simp [Node.flat]
@[simp] theorem flat_block (b : List Node) : (Node.block b).flat = flatL b := by simp [Node.flat]

theorem flatL_append (a b : List Node) : flatL (a ++ b) = flatL a ++ flatL b := by
  induction a with
  | nil => simp
  | cons n rest ih => simp [ih]

def nums (ls : List PreLine) : List Nat := ls.map (·.num)

/-- a line the parser must keep: not blank, and not a triple-quote line once its indentation is removed -/
def keepLine (l : PreLine) : Prop := isBlank l.content = false ∧ startsWith tripleQuote (l.content.dropWhile isSpace) = false

def AllWs (t : Str) : Prop := ∀ c ∈ t, isSpace c = true

/-- what a (recursive) call of the parser guarantees about the lines it was given -/
def RecSound (rec : ParseFn) : Prop :=
  ∀ text tab b, (∀ t, tab = some t → AllWs t) → rec text tab = .ok b →
    (nums (flatL b)).Sublist (nums text) ∧ ∀ l ∈ text, keepLine l → l.num ∈ nums (flatL b)

/-- the loop invariant after the lines `done` -/
structure PInv (done : List PreLine) (st : PState) : Prop where
  sub : (nums (flatL st.ret.reverse) ++ nums st.conv.reverse).Sublist (nums done)
  kept : ∀ l ∈ done, keepLine l → l.num ∈ nums (flatL st.ret.reverse) ∨ ∃ l' ∈ st.conv, l'.num = l.num ∧ keepLine l'
  free : st.free ≠ 0 → st.conv = []
  tab : ∀ t, st.tab = some t → AllWs t

theorem isBlank_drop_ws (s : Str) (k : Nat) (hk : ∀ c ∈ s.take k, isSpace c = true) (hb : isBlank s = false) : isBlank (s.drop k) = false := by
  unfold isBlank at hb ⊢
  rw [← List.take_append_drop k s, List.all_append] at hb
  have : (s.take k).all isSpace = true := List.all_eq_true.mpr hk
  simpa [this] using hb

theorem dropWhile_drop_ws (s : Str) (k : Nat) (hk : ∀ c ∈ s.take k, isSpace c = true) :
    (s.drop k).dropWhile isSpace = s.dropWhile isSpace := by
  induction s generalizing k with
  | nil => simp
  | cons a rest ih =>
    cases k with
    | zero => simp
    | succ k =>
      have ha : isSpace a = true := hk a (by simp)
      simp only [List.drop_succ_cons, List.dropWhile_cons, ha, if_true]
      exact ih k (fun c hc => hk c (by simp [hc]))

theorem keepLine_strip (l : PreLine) (t : Str) (ht : AllWs t) (hp : startsWith t l.content = true) (hk : keepLine l) :
    keepLine ⟨l.content.drop t.length, l.num⟩ := by
  have hpre : t <+: l.content := List.isPrefixOf_iff_prefix.mp hp
  obtain ⟨r, hr⟩ := hpre
  have htake : ∀ c ∈ l.content.take t.length, isSpace c = true := by
    intro c hc
    rw [← hr] at hc
    simp at hc
    exact ht c hc
  exact ⟨isBlank_drop_ws _ _ htake hk.1, by rw [dropWhile_drop_ws _ _ htake]; exact hk.2⟩

theorem takeWhile_allWs (s : Str) : AllWs (s.takeWhile isSpace) := by
  induction s with
  | nil => intro c hc; simp at hc
  | cons a r ih =>
    intro c hc
    by_cases ha : isSpace a = true
    · simp only [List.takeWhile_cons, ha, if_true, List.mem_cons] at hc
      rcases hc with rfl | hc
      · exact ha
      · exact ih c hc
    · simp [ha] at hc

theorem startsWith_takeWhile (s : Str) : startsWith (s.takeWhile isSpace) s = true := by
  unfold startsWith
  rw [List.isPrefixOf_iff_prefix]
  exact List.takeWhile_prefix _

/-- the unit an indented line is stripped of -/
def unitOf (r : HasTab) (tab : Option Str) : Str := match r with | .discovered d => d | _ => tab.getD []

/-- what `has_tab` answers with "indented" strips a whitespace prefix of the line -/
theorem hasTab_indented (s : Str) (tab : Option Str) (n : Nat) (ht : ∀ t, tab = some t → AllWs t) (r : HasTab)
    (h : hasTab s tab n = .ok r) (hr : r ≠ .no) :
    AllWs (unitOf r tab) ∧ startsWith (unitOf r tab) s = true := by
  unfold hasTab at h
  cases tab with
  | some t =>
    simp only [] at h
    split at h
    · rename_i hs
      cases h
      exact ⟨ht t rfl, hs⟩
    · split at h
      · cases h
      · cases h; exact absurd rfl hr
  | none =>
    simp only [] at h
    split at h
    · cases h; exact ⟨takeWhile_allWs _, startsWith_takeWhile _⟩
    · cases h; exact ⟨takeWhile_allWs _, startsWith_takeWhile _⟩
    · cases h; exact absurd rfl hr

theorem nums_append (a b : List PreLine) : nums (a ++ b) = nums a ++ nums b := by simp [nums]

theorem stepLine_sound (rec : ParseFn) (hrec : RecSound rec) (count : Nat) (done : List PreLine) (l : PreLine) (st st' : PState)
    (hcount : count = 0 → st.conv = [])
    (hinv : PInv done st) (h : stepLine rec count l st = .ok st') : PInv (done ++ [l]) st' := by
  have hsubext : ∀ {x : List Nat}, x.Sublist (nums done) → x.Sublist (nums (done ++ [l])) := by
    intro x hx; rw [nums_append]; exact hx.trans (List.sublist_append_left _ _)
  have hkept_old : ∀ {st2 : PState}, st2.ret = st.ret → st2.conv = st.conv → ¬ keepLine l →
      ∀ l0 ∈ done ++ [l], keepLine l0 → l0.num ∈ nums (flatL st2.ret.reverse) ∨ ∃ l' ∈ st2.conv, l'.num = l0.num ∧ keepLine l' := by
    intro st2 h1 h2 hnk l0 hl0 hk0
    rw [h1, h2]
    rcases List.mem_append.mp hl0 with hm | hm
    · exact hinv.kept l0 hm hk0
    · simp only [List.mem_singleton] at hm; subst hm; exact absurd hk0 hnk
  unfold stepLine at h
  split at h
  · -- a blank line
    rename_i hb
    cases h
    exact ⟨hsubext hinv.sub, hkept_old rfl rfl (fun hk => by rw [hk.1] at hb; cases hb), hinv.free, hinv.tab⟩
  · rename_i hb
    have hnb : isBlank l.content = false := by simpa using hb
    simp only [] at h
    split at h
    · -- a triple-quote line that opens or closes a verbatim region
      rename_i hq
      cases h
      simp only [Bool.and_eq_true] at hq
      have hnk : ¬ keepLine l := by
        intro hk
        have hstart : startsWith tripleQuote l.content = true := hq.1
        -- the line itself starts with the quotes, so it does not start with a blank: dropWhile leaves it unchanged
        have : l.content.dropWhile isSpace = l.content := by
          unfold startsWith tripleQuote at hstart
          cases hc : l.content with
          | nil => rw [hc] at hstart; simp [List.isPrefixOf] at hstart
          | cons a r =>
            rw [hc] at hstart
            simp only [List.isPrefixOf, Bool.and_eq_true, beq_iff_eq] at hstart
            have ha : a = '"' := hstart.1.symm
            subst ha
            simp [List.dropWhile, isSpace]
        have h2 := hk.2
        rw [this, hstart] at h2
        cases h2
      refine ⟨hsubext hinv.sub, hkept_old rfl rfl hnk, ?_, hinv.tab⟩
      intro hf
      simp only at hf ⊢
      rcases (Bool.or_eq_true _ _).mp hq.2 with h0 | hfree
      · exact hcount (by simpa using h0)
      · exact hinv.free (by simpa using hfree)
    · split at h
      · -- inside a verbatim region: the line is kept as it is
        rename_i _ hfree
        cases h
        have hconv : st.conv = [] := hinv.free (by simpa using hfree)
        refine ⟨?_, ?_, fun _ => hconv, hinv.tab⟩
        · simp only [List.reverse_cons, flatL_append, flatL_cons, flat_line, flatL_nil, List.append_nil, nums_append, hconv, List.reverse_nil]
          have := hinv.sub
          rw [hconv] at this
          simp only [List.reverse_nil, nums, List.map_nil, List.append_nil] at this ⊢
          simpa [nums] using List.Sublist.append this (List.Sublist.refl [l.num])
        · intro l0 hl0 hk0
          simp only [List.reverse_cons, flatL_append, flatL_cons, flat_line, flatL_nil, List.append_nil, nums_append]
          rcases List.mem_append.mp hl0 with hm | hm
          · rcases hinv.kept l0 hm hk0 with h1 | ⟨l', hl', _⟩
            · exact Or.inl (List.mem_append_left _ h1)
            · rw [hconv] at hl'; cases hl'
          · simp only [List.mem_singleton] at hm; subst hm
            exact Or.inl (List.mem_append_right _ (by simp [nums]))
      · rename_i hnfree
        split at h
        · cases h
        · -- an unindented line
          split at h
          · rename_i hce
            cases h
            have hconv : st.conv = [] := by simpa using hce
            refine ⟨?_, ?_, fun hf => hconv, hinv.tab⟩
            · simp only [List.reverse_cons, flatL_append, flatL_cons, flat_line, flatL_nil, List.append_nil, nums_append, hconv, List.reverse_nil]
              have := hinv.sub
              rw [hconv] at this
              simp only [List.reverse_nil, nums, List.map_nil, List.append_nil] at this ⊢
              simpa [nums] using List.Sublist.append this (List.Sublist.refl [l.num])
            · intro l0 hl0 hk0
              simp only [List.reverse_cons, flatL_append, flatL_cons, flat_line, flatL_nil, List.append_nil, nums_append]
              rcases List.mem_append.mp hl0 with hm | hm
              · rcases hinv.kept l0 hm hk0 with h1 | ⟨l', hl', _⟩
                · exact Or.inl (List.mem_append_left _ h1)
                · rw [hconv] at hl'; cases hl'
              · simp only [List.mem_singleton] at hm; subst hm
                exact Or.inl (List.mem_append_right _ (by simp [nums]))
          · split at h
            · cases h
            · -- the pending block is parsed and attached before the line
              rename_i b hb2
              cases h
              obtain ⟨hbsub, hbkept⟩ := hrec _ _ b hinv.tab hb2
              refine ⟨?_, ?_, fun _ => rfl, hinv.tab⟩
              · simp only [List.reverse_cons, flatL_append, flatL_cons, flat_line, flat_block, flatL_nil, List.append_nil,
                  List.reverse_nil, nums, List.map_nil]
                have h1 : (nums (flatL st.ret.reverse) ++ nums (flatL b)).Sublist (nums done) :=
                  (List.Sublist.append (List.Sublist.refl _) hbsub).trans hinv.sub
                have := List.Sublist.append h1 (List.Sublist.refl [l.num])
                simpa [nums, List.append_assoc] using this
              · intro l0 hl0 hk0
                simp only [List.reverse_cons, flatL_append, flatL_cons, flat_line, flat_block, flatL_nil, List.append_nil, nums_append]
                rcases List.mem_append.mp hl0 with hm | hm
                · rcases hinv.kept l0 hm hk0 with h1 | ⟨l', hl', hnum, hk'⟩
                  · exact Or.inl (List.mem_append_left _ (List.mem_append_left _ h1))
                  · have := hbkept l' (by simpa using hl') hk'
                    rw [hnum] at this
                    exact Or.inl (List.mem_append_left _ (List.mem_append_right _ this))
                · simp only [List.mem_singleton] at hm; subst hm
                  exact Or.inl (List.mem_append_right _ (by simp [nums]))
        · -- an indented line: one unit removed, into the pending block
          rename_i t hne ht
          split at h
          · cases h
          · cases h
            obtain ⟨hws, hstarts⟩ := hasTab_indented l.content st.tab l.num hinv.tab t ht hne
            have key : ∀ u : Str, AllWs u → startsWith u l.content = true →
                PInv (done ++ [l]) { st with seen := true, tab := some u, conv := ⟨l.content.drop u.length, l.num⟩ :: st.conv } := by
              intro u hws hstarts
              refine ⟨?_, ?_, ?_, ?_⟩
              · simp only [List.reverse_cons, nums_append]
                have := List.Sublist.append hinv.sub (List.Sublist.refl [l.num])
                simpa [nums, List.append_assoc] using this
              · intro l0 hl0 hk0
                rcases List.mem_append.mp hl0 with hm | hm
                · rcases hinv.kept l0 hm hk0 with h1 | ⟨l', hl', hnum, hk'⟩
                  · exact Or.inl h1
                  · exact Or.inr ⟨l', List.mem_cons_of_mem _ hl', hnum, hk'⟩
                · simp only [List.mem_singleton] at hm; subst hm
                  exact Or.inr ⟨_, List.mem_cons_self, rfl, keepLine_strip l0 _ hws hstarts hk0⟩
              · intro hf
                exact absurd (by simpa using hf) (by simpa using hnfree)
              · intro t' ht'
                simp only [Option.some.injEq] at ht'
                subst ht'
                exact hws
            cases t with
            | no => exact absurd rfl hne
            | yes => exact key _ hws hstarts
            | discovered d => exact key _ hws hstarts

theorem goLines_sound (rec : ParseFn) (hrec : RecSound rec) (lines : List PreLine) :
    ∀ (count : Nat) (done : List PreLine) (st st' : PState), (count = 0 → st.conv = []) → PInv done st →
      goLines rec count lines st = .ok st' → PInv (done ++ lines) st' := by
  induction lines with
  | nil => intro count done st st' _ hinv h; simp only [goLines] at h; cases h; simpa using hinv
  | cons l rest ih =>
    intro count done st st' hc hinv h
    simp only [goLines] at h
    split at h
    · cases h
    · rename_i st1 h1
      have := ih (count + 1) (done ++ [l]) st1 st' (fun h0 => absurd h0 (by omega)) (stepLine_sound rec hrec count done l st st1 hc hinv h1) h
      simpa [List.append_assoc] using this

theorem finishParse_sound (rec : ParseFn) (hrec : RecSound rec) (done : List PreLine) (st : PState) (nodes : List Node)
    (hinv : PInv done st) (h : finishParse rec st = .ok nodes) :
    (nums (flatL nodes)).Sublist (nums done) ∧ ∀ l ∈ done, keepLine l → l.num ∈ nums (flatL nodes) := by
  unfold finishParse at h
  split at h
  · cases h
  · split at h
    · rename_i hce
      cases h
      have hconv : st.conv = [] := by simpa using hce
      refine ⟨?_, ?_⟩
      · have := hinv.sub
        rw [hconv] at this
        simpa [nums] using this
      · intro l hl hk
        rcases hinv.kept l hl hk with h1 | ⟨l', hl', _⟩
        · exact h1
        · rw [hconv] at hl'; cases hl'
    · split at h
      · cases h
      · rename_i b hb
        cases h
        obtain ⟨hbsub, hbkept⟩ := hrec _ _ b hinv.tab hb
        refine ⟨?_, ?_⟩
        · simp only [List.reverse_cons, flatL_append, flatL_cons, flat_block, flatL_nil, List.append_nil, nums_append]
          exact (List.Sublist.append (List.Sublist.refl _) hbsub).trans hinv.sub
        · intro l hl hk
          simp only [List.reverse_cons, flatL_append, flatL_cons, flat_block, flatL_nil, List.append_nil, nums_append]
          rcases hinv.kept l hl hk with h1 | ⟨l', hl', hnum, hk'⟩
          · exact List.mem_append_left _ h1
          · have := hbkept l' (by simpa using hl') hk'
            rw [hnum] at this
            exact List.mem_append_right _ this

theorem parseFuel_sound : ∀ f : Nat, RecSound (parseFuel f) := by
  intro f
  induction f with
  | zero => intro text tab b _ h; simp [parseFuel] at h
  | succ f ih =>
    intro text tab b htab h
    simp only [parseFuel] at h
    split at h
    · cases h
    · rename_i st hgo
      have hinit : PInv [] ({ tab := tab } : PState) :=
        ⟨by simp [nums], fun l hl => (by cases hl), fun hf => rfl, htab⟩
      have := goLines_sound _ ih text 0 [] _ st (fun _ => rfl) hinit hgo
      exact finishParse_sound _ ih _ st b (by simpa using this) h

/-- **soundness of `parse_document` on ANY text**: if parsing succeeds, the code lines of the tree in document order are source lines in
    source order (their numbers form a sublist of 1, 2, …, n: nothing invented, duplicated or moved), and every source line that is
    not blank and not a triple-quote line is one of them — no code line is silently dropped -/
theorem parseLines_sound (lines : List Str) (nodes : List Node) (h : parseLines lines = .ok nodes) :
    (nums (flatL nodes)).Sublist (nums (numberLines lines)) ∧ ∀ l ∈ numberLines lines, keepLine l → l.num ∈ nums (flatL nodes) :=
  parseFuel_sound _ _ _ _ (fun _ ht => by cases ht) h

theorem nums_numberLines (lines : List Str) : nums (numberLines lines) = (List.range lines.length).map (· + 1) := by
  simp only [nums, numberLines, List.map_map]
  apply List.ext_getElem
  · simp
  · intro i h1 h2
    simp

/-! ### the text of every line of the tree is the text of its source line without leading white space it was indented by -/

/-- `l'` is the source line `l ∈ src` with some leading white space removed -/
def SrcOf (src : List PreLine) (l' : PreLine) : Prop :=
  ∃ l ∈ src, l.num = l'.num ∧ ∃ k, l'.content = l.content.drop k ∧ ∀ c ∈ l.content.take k, isSpace c = true

theorem SrcOf.mono {a b : List PreLine} {l' : PreLine} (h : SrcOf a l') (hab : ∀ x ∈ a, x ∈ b) : SrcOf b l' := by
  obtain ⟨l, hl, hn, k, hc, hw⟩ := h
  exact ⟨l, hab l hl, hn, k, hc, hw⟩

theorem SrcOf.self {src : List PreLine} {l : PreLine} (h : l ∈ src) : SrcOf src l :=
  ⟨l, h, rfl, 0, by simp, by simp⟩

/-- composition: a line of the lines-with-one-unit-removed is a line of the source -/
theorem SrcOf.trans {src mid : List PreLine} {l'' : PreLine} (h2 : SrcOf mid l'') (h1 : ∀ l' ∈ mid, SrcOf src l') : SrcOf src l'' := by
  obtain ⟨l', hl', hn2, k2, hc2, hw2⟩ := h2
  obtain ⟨l, hl, hn1, k1, hc1, hw1⟩ := h1 l' hl'
  refine ⟨l, hl, hn1.trans hn2, k1 + k2, ?_, ?_⟩
  · rw [hc2, hc1, List.drop_drop]
  · intro c hc
    rw [List.take_add] at hc
    rcases List.mem_append.mp hc with h | h
    · exact hw1 c h
    · rw [← hc1] at h; exact hw2 c h

def RecContent (rec : ParseFn) : Prop :=
  ∀ text tab b, (∀ t, tab = some t → AllWs t) → rec text tab = .ok b → ∀ l' ∈ flatL b, SrcOf text l'

structure CInv (done : List PreLine) (st : PState) : Prop where
  ret : ∀ l' ∈ flatL st.ret.reverse, SrcOf done l'
  conv : ∀ l' ∈ st.conv, SrcOf done l'
  tab : ∀ t, st.tab = some t → AllWs t

theorem stepLine_content (rec : ParseFn) (hrec : RecContent rec) (count : Nat) (done : List PreLine) (l : PreLine) (st st' : PState)
    (hinv : CInv done st) (h : stepLine rec count l st = .ok st') : CInv (done ++ [l]) st' := by
  have hmono : ∀ {x : PreLine}, SrcOf done x → SrcOf (done ++ [l]) x := fun hx => hx.mono (fun y hy => List.mem_append_left _ hy)
  have hself : SrcOf (done ++ [l]) l := SrcOf.self (by simp)
  have hold : CInv (done ++ [l]) st := ⟨fun x hx => hmono (hinv.ret x hx), fun x hx => hmono (hinv.conv x hx), hinv.tab⟩
  have hpush : ∀ {st2 : PState}, st2.ret = .line l :: st.ret → st2.conv = st.conv → st2.tab = st.tab → CInv (done ++ [l]) st2 := by
    intro st2 h1 h2 h3
    refine ⟨?_, by rw [h2]; exact hold.conv, by rw [h3]; exact hold.tab⟩
    intro x hx
    rw [h1] at hx
    simp only [List.reverse_cons, flatL_append, flatL_cons, flat_line, flatL_nil, List.append_nil, List.mem_append, List.mem_singleton] at hx
    rcases hx with hx | rfl
    · exact hold.ret x hx
    · exact hself
  unfold stepLine at h
  split at h
  · cases h; exact hold
  · simp only [] at h
    split at h
    · cases h; exact ⟨hold.ret, hold.conv, hold.tab⟩
    · split at h
      · cases h; exact hpush rfl rfl rfl
      · split at h
        · cases h
        · split at h
          · cases h; exact hpush rfl rfl rfl
          · split at h
            · cases h
            · rename_i b hb2
              cases h
              have hb := hrec _ _ b hinv.tab hb2
              refine ⟨?_, fun x hx => (by cases hx), hold.tab⟩
              intro x hx
              simp only [List.reverse_cons, flatL_append, flatL_cons, flat_line, flat_block, flatL_nil, List.append_nil, List.mem_append,
                List.mem_singleton] at hx
              rcases hx with (hx | hx) | rfl
              · exact hold.ret x hx
              · exact (hb x hx).trans (fun y hy => hold.conv y (by simpa using hy))
              · exact hself
        · rename_i t hne ht
          split at h
          · cases h
          · cases h
            obtain ⟨hws, hstarts⟩ := hasTab_indented l.content st.tab l.num hinv.tab t ht hne
            have key : ∀ u : Str, AllWs u → startsWith u l.content = true →
                CInv (done ++ [l]) { st with seen := true, tab := some u, conv := ⟨l.content.drop u.length, l.num⟩ :: st.conv } := by
              intro u hws hstarts
              refine ⟨hold.ret, ?_, ?_⟩
              · intro x hx
                rcases List.mem_cons.mp hx with rfl | hx
                · refine ⟨l, by simp, rfl, u.length, rfl, ?_⟩
                  obtain ⟨r, hr⟩ := List.isPrefixOf_iff_prefix.mp hstarts
                  intro c hc
                  rw [← hr] at hc
                  simp at hc
                  exact hws c hc
                · exact hold.conv x hx
              · intro t' ht'
                simp only [Option.some.injEq] at ht'
                subst ht'
                exact hws
            cases t with
            | no => exact absurd rfl hne
            | yes => exact key _ hws hstarts
            | discovered d => exact key _ hws hstarts

theorem goLines_content (rec : ParseFn) (hrec : RecContent rec) (lines : List PreLine) :
    ∀ (count : Nat) (done : List PreLine) (st st' : PState), CInv done st → goLines rec count lines st = .ok st' → CInv (done ++ lines) st' := by
  induction lines with
  | nil => intro count done st st' hinv h; simp only [goLines] at h; cases h; simpa using hinv
  | cons l rest ih =>
    intro count done st st' hinv h
    simp only [goLines] at h
    split at h
    · cases h
    · rename_i st1 h1
      have := ih (count + 1) (done ++ [l]) st1 st' (stepLine_content rec hrec count done l st st1 hinv h1) h
      simpa [List.append_assoc] using this

theorem parseFuel_content : ∀ f : Nat, RecContent (parseFuel f) := by
  intro f
  induction f with
  | zero => intro text tab b _ h; simp [parseFuel] at h
  | succ f ih =>
    intro text tab b htab h
    simp only [parseFuel] at h
    split at h
    · cases h
    · rename_i st hgo
      have hinit : CInv [] ({ tab := tab } : PState) := ⟨fun x hx => (by simp at hx), fun x hx => (by cases hx), htab⟩
      have hinv := goLines_content _ ih text 0 [] _ st hinit hgo
      simp only [List.nil_append] at hinv
      unfold finishParse at h
      split at h
      · cases h
      · split at h
        · cases h; exact hinv.ret
        · split at h
          · cases h
          · rename_i b hb
            cases h
            intro x hx
            simp only [List.reverse_cons, flatL_append, flatL_cons, flat_block, flatL_nil, List.append_nil, List.mem_append] at hx
            rcases hx with hx | hx
            · exact hinv.ret x hx
            · exact (ih _ _ b hinv.tab hb x hx).trans (fun y hy => hinv.conv y (by simpa using hy))

/-- **every line of the tree is a source line with leading white space removed**: same number, and its text is the source text from
    some position on, everything before that position being white space — the parser never alters, joins or splits the text of a line -/
theorem parseLines_content (lines : List Str) (nodes : List Node) (h : parseLines lines = .ok nodes) :
    ∀ l' ∈ flatL nodes, SrcOf (numberLines lines) l' :=
  parseFuel_content _ _ _ _ (fun _ ht => by cases ht) h

end Duckling
