import Duckling.Model.Compile
import Duckling.Lemmas.RBasic
/-
  Trace invariant (C10): every located error produced while a stack runs in context `ctx` at line `line`
  has a trace that is `ctx.frames`, then a frame for this stack at that line, then (possibly) the
  frames of the stacks created from it.
-/
namespace Duckling

/-- errors of `r` are unlocated, or located in the current stack at `line` or below it -/
structure TraceAt {α : Type} (ctx : Ctx) (line : Nat) (r : R α) : Prop where
  out : ∀ e, r = .err e → ∀ t, e.trace = some t →
    ∃ l2 rest, t = ctx.frames ++ (⟨ctx.file, line, l2⟩ : Frame) :: rest

theorem TraceAt.ok {α : Type} (ctx : Ctx) (line : Nat) (a : α) : TraceAt ctx line (.ok a : R α) := by
  constructor; intro e h; cases h
theorem TraceAt.pure {α : Type} (ctx : Ctx) (line : Nat) (a : α) : TraceAt ctx line (Pure.pure a : R α) := TraceAt.ok ctx line a
theorem TraceAt.crash {α : Type} (ctx : Ctx) (line : Nat) (x : String) : TraceAt ctx line (.crash x : R α) := by
  constructor; intro e h; cases h
theorem TraceAt.oom {α : Type} (ctx : Ctx) (line : Nat) (x : String) : TraceAt ctx line (.oom x : R α) := by
  constructor; intro e h; cases h

theorem TraceAt.raise {α : Type} (ctx : Ctx) (line : Nat) (l2 : Option Nat) (st : St) (k : EK) :
    TraceAt ctx line (raise ctx ⟨line, l2⟩ st k : R α) := by
  constructor; intro e h t ht
  simp only [Duckling.raise, R.err.injEq] at h
  subst h
  simp only [Option.some.injEq] at ht
  exact ⟨l2, [], by simp [← ht, Ctx.trace]⟩

theorem TraceAt.overflow {α : Type} (ctx : Ctx) (line : Nat) (l2 : Option Nat) (st : St) :
    TraceAt ctx line (overflowErr ctx ⟨line, l2⟩ st : R α) := by
  constructor; intro e h t ht
  simp only [overflowErr, R.err.injEq] at h
  subst h
  simp only [Option.some.injEq] at ht
  exact ⟨l2, [], by simp [← ht, Ctx.trace]⟩

theorem TraceAt.unlocated {α : Type} (ctx : Ctx) (line : Nat) (k : EK) (n : Option Nat) :
    TraceAt ctx line (.err { k := k, lineNo := n } : R α) := by
  constructor; intro e h t ht
  cases h
  simp at ht

theorem TraceAt.liftO {α : Type} (ctx : Ctx) (line : Nat) (l2 : Option Nat) (st : St) (o : Outcome α) :
    TraceAt ctx line (Duckling.liftO ctx ⟨line, l2⟩ st o) := by
  cases o with
  | ok a => exact TraceAt.ok _ _ _
  | cerr k => exact TraceAt.raise _ _ _ _ _
  | crash e => exact TraceAt.crash _ _ _
  | oom w => exact TraceAt.oom _ _ _

theorem TraceAt.bind {α β : Type} {ctx : Ctx} {line : Nat} {x : R α} {f : α → R β}
    (hx : TraceAt ctx line x) (hf : ∀ a, x = .ok a → TraceAt ctx line (f a)) : TraceAt ctx line (x >>= f) := by
  cases x with
  | ok a => exact hf a rfl
  | err e => constructor; intro e' h; cases h; exact hx.out e rfl
  | crash e => exact TraceAt.crash _ _ _
  | oom w => exact TraceAt.oom _ _ _

theorem TraceAt.evalIn (ctx : Ctx) (line : Nat) (l2 : Option Nat) (st : St) (s : Str) :
    TraceAt ctx line (Duckling.evalIn ctx ⟨line, l2⟩ st s) := TraceAt.liftO _ _ _ _ _

/-- a child executor whose errors are located below the frames it is given -/
def ChildTraced (c : Option ChildFn) : Prop :=
  ∀ run, c = some run → ∀ code ctx st e, run code ctx st = .err e → ∀ t, e.trace = some t →
    ∃ fr rest, t = ctx.frames ++ fr :: rest

theorem TraceAt.runChild {c : Option ChildFn} (hc : ChildTraced c) (ctx : Ctx) (line : Nat) (l2 : Option Nat) (st : St)
    (code : List Node) (file : Option Path) (cst : St) :
    TraceAt ctx line (Duckling.runChild c ctx ⟨line, l2⟩ st code file cst) := by
  cases c with
  | none => exact TraceAt.overflow _ _ _ _
  | some run =>
    constructor
    intro e h t ht
    obtain ⟨fr, rest, hfr⟩ := hc run rfl code _ cst e h t ht
    refine ⟨l2, fr :: rest, ?_⟩
    simp only [hfr, Ctx.child, Ctx.trace, List.append_assoc, List.singleton_append]

theorem TraceAt.guardChild {α : Type} {c : Option ChildFn} (ctx : Ctx) (line : Nat) (l2 : Option Nat) (st : St) (k : R α)
    (hk : TraceAt ctx line k) : TraceAt ctx line (Duckling.guardChild c ctx ⟨line, l2⟩ st k) := by
  cases c with
  | none => exact TraceAt.overflow _ _ _ _
  | some _ => exact hk

end Duckling

namespace Duckling

/-- closes a `TraceAt` goal whose term is a tree of `if`/`match` over raises, oks and binds of known pieces -/
syntax "trace_auto" : tactic
macro_rules
  | `(tactic| trace_auto) => `(tactic|
      repeat' first
        | with_reducible exact TraceAt.ok _ _ _
        | with_reducible exact TraceAt.pure _ _ _
        | with_reducible exact TraceAt.crash _ _ _
        | with_reducible exact TraceAt.oom _ _ _
        | with_reducible exact TraceAt.raise _ _ _ _ _
        | with_reducible exact TraceAt.unlocated _ _ _ _
        | with_reducible exact TraceAt.evalIn _ _ _ _ _
        | with_reducible exact TraceAt.liftO _ _ _ _ _
        | with_reducible exact TraceAt.overflow _ _ _ _
        | with_reducible assumption
        | with_reducible (apply TraceAt.bind)
        | split
        | (intro _ _))

theorem TraceAt.runArgs (ctx : Ctx) (line : Nat) (l2 : Option Nat) (st : St) (vs : Option Str) :
    TraceAt ctx line (Duckling.runArgs ctx ⟨line, l2⟩ st vs) := by
  unfold Duckling.runArgs; trace_auto

theorem TraceAt.runPre (ctx : Ctx) (line : Nat) (l2 : Option Nat) (a : Arg) (st : St) :
    TraceAt ctx line (Duckling.runPre ctx ⟨line, l2⟩ a st) := by
  unfold Duckling.runPre
  apply TraceAt.bind (TraceAt.runArgs _ _ _ _ _)
  intro vals _
  trace_auto

theorem TraceAt.runPost (ctx : Ctx) (line : Nat) (l2 : Option Nat) (st : St) (r : Out) :
    TraceAt ctx line (Duckling.runPost ctx ⟨line, l2⟩ st r) := by
  unfold Duckling.runPost; simp only []; trace_auto

theorem TraceAt.runRun {c : Option ChildFn} (hc : ChildTraced c) (ctx : Ctx) (line : Nat) (l2 : Option Nat) (a : Arg) (st : St) :
    TraceAt ctx line (Duckling.runRun c ctx ⟨line, l2⟩ a st) := by
  unfold Duckling.runRun
  apply TraceAt.bind (TraceAt.runPre _ _ _ _ _)
  intro p _
  apply TraceAt.bind (TraceAt.runChild hc _ _ _ _ _ _ _)
  intro r _
  exact TraceAt.runPost _ _ _ _ _

theorem TraceAt.loadImport (ctx : Ctx) (line : Nat) (l2 : Option Nat) (a : Arg) (st : St) :
    TraceAt ctx line (Duckling.loadImport ctx ⟨line, l2⟩ a st) := by
  unfold Duckling.loadImport; trace_auto

theorem TraceAt.startPost (ctx : Ctx) (line : Nat) (name : Str) (st : St) (r : Out) :
    TraceAt ctx line (Duckling.startPost name st r) := by
  unfold Duckling.startPost; simp only []; trace_auto

theorem TraceAt.runStart {c : Option ChildFn} (hc : ChildTraced c) (ctx : Ctx) (line : Nat) (l2 : Option Nat) (name : Str) (a : Arg) (st : St) :
    TraceAt ctx line (Duckling.runStart c ctx ⟨line, l2⟩ name a st) := by
  unfold Duckling.runStart
  apply TraceAt.bind (TraceAt.loadImport _ _ _ _ _)
  intro p _
  apply TraceAt.bind (TraceAt.runChild hc _ _ _ _ _ _ _)
  intro r _
  exact TraceAt.startPost _ _ _ _ _

theorem TraceAt.defaultEmit (ctx : Ctx) (line : Nat) (name : Str) (a : Option Arg) :
    TraceAt ctx line (Duckling.defaultEmit name a) := by
  unfold Duckling.defaultEmit; trace_auto

theorem TraceAt.runCompileLocal (ctx : Ctx) (c : ClsDesc) (name : Str) (line : Nat) (a : Option Arg) (st : St) :
    TraceAt ctx line (Duckling.runCompileLocal ctx c name line a st) := by
  unfold Duckling.runCompileLocal
  simp only []
  have hd := TraceAt.defaultEmit ctx line name a
  trace_auto

end Duckling

namespace Duckling

theorem TraceAt.runCompile {c : Option ChildFn} (hc : ChildTraced c) (ctx : Ctx) (cl : ClsDesc) (name : Str) (line : Nat)
    (a : Option Arg) (st : St) : TraceAt ctx line (Duckling.runCompile c ctx cl name line a st) := by
  unfold Duckling.runCompile
  split
  · split
    · exact TraceAt.crash _ _ _
    · exact TraceAt.runRun hc _ _ _ _ _
  · split
    · split
      · exact TraceAt.crash _ _ _
      · exact TraceAt.runStart hc _ _ _ _ _ _
    · exact TraceAt.runCompileLocal _ _ _ _ _ _

theorem TraceAt.multiComp {c : Option ChildFn} (hc : ChildTraced c) (ctx : Ctx) (cl : ClsDesc) (name : Str) (line : Nat)
    (items : List (Option Arg)) (st : St) (out : List Str) (sig : Sig) :
    TraceAt ctx line (Duckling.multiComp c ctx cl name line items st out sig) := by
  induction items generalizing st out sig with
  | nil => exact TraceAt.ok _ _ _
  | cons a rest ih =>
    unfold Duckling.multiComp
    exact TraceAt.bind (TraceAt.runCompile hc _ _ _ _ _ _) (fun r _ => ih _ _ _)

theorem TraceAt.evaluateArgs (ctx : Ctx) (line : Nat) (st : St) (b : Bool) (args : List Arg) :
    TraceAt ctx line (Duckling.evaluateArgs ctx line st b args) := by
  induction args with
  | nil => exact TraceAt.ok _ _ _
  | cons a rest ih =>
    unfold Duckling.evaluateArgs
    apply TraceAt.bind (TraceAt.evalIn _ _ _ _ _)
    intro v _
    apply TraceAt.bind ih
    intro r _
    exact TraceAt.ok _ _ _

theorem TraceAt.stringifyArgs (ctx : Ctx) (line : Nat) (st : St) (args : List Arg) :
    TraceAt ctx line (Duckling.stringifyArgs ctx line st args) := by
  induction args with
  | nil => exact TraceAt.ok _ _ _
  | cons a rest ih =>
    unfold Duckling.stringifyArgs
    apply TraceAt.bind (TraceAt.liftO _ _ _ _ _)
    intro v _
    apply TraceAt.bind ih
    intro r _
    exact TraceAt.ok _ _ _

theorem TraceAt.verifyTypes (ctx : Ctx) (line : Nat) (st : St) (t : ArgType) (args : List Arg) :
    TraceAt ctx line (Duckling.verifyTypes ctx line st t args) := by
  induction args with
  | nil => exact TraceAt.ok _ _ _
  | cons a rest ih => unfold Duckling.verifyTypes; split; exact TraceAt.raise _ _ _ _ _; exact ih

theorem TraceAt.verifyEach (ctx : Ctx) (line : Nat) (st : St) (c : ClsDesc) (args : List Arg) :
    TraceAt ctx line (Duckling.verifyEach ctx line st c args) := by
  induction args with
  | nil => exact TraceAt.ok _ _ _
  | cons a rest ih => unfold Duckling.verifyEach; split; exact TraceAt.raise _ _ _ _ _; exact ih

theorem TraceAt.verifyArgsHook (ctx : Ctx) (line : Nat) (c : ClsDesc) (args : List Arg) (st : St) :
    TraceAt ctx line (Duckling.verifyArgsHook ctx ⟨line, none⟩ c args st) := by
  unfold Duckling.verifyArgsHook; trace_auto

theorem TraceAt.prepareArgs (ctx : Ctx) (c : ClsDesc) (word : Str) (line : Nat) (arg : Option Str) (block : Option (List Node)) (st : St) :
    TraceAt ctx line (Duckling.prepareArgs ctx c word line arg block st) := by
  unfold Duckling.prepareArgs
  split
  · exact TraceAt.raise _ _ _ _ _
  · simp only []
    split
    · apply TraceAt.bind (TraceAt.evaluateArgs _ _ _ _ _)
      intro ev _
      split
      · exact TraceAt.ok _ _ _
      · exact TraceAt.stringifyArgs _ _ _ _
    · exact TraceAt.ok _ _ _

theorem TraceAt.checkArgs (ctx : Ctx) (c : ClsDesc) (line : Nat) (args : List Arg) (st : St) :
    TraceAt ctx line (Duckling.checkArgs ctx c line args st) := by
  unfold Duckling.checkArgs
  simp only []
  split
  · exact TraceAt.raise _ _ _ _ _
  · split
    · exact TraceAt.raise _ _ _ _ _
    · apply TraceAt.bind (TraceAt.verifyTypes _ _ _ _ _)
      intro _ _
      apply TraceAt.bind (TraceAt.verifyArgsHook _ _ _ _ _)
      intro st' _
      apply TraceAt.bind (TraceAt.verifyEach _ _ _ _ _)
      intro _ _
      exact TraceAt.ok _ _ _

theorem TraceAt.simplePre (ctx : Ctx) (c : ClsDesc) (word : Str) (line : Nat) (arg : Option Str) (block : Option (List Node)) (st : St) :
    TraceAt ctx line (Duckling.simplePre ctx c word line arg block st) := by
  unfold Duckling.simplePre
  simp only []
  split
  · exact TraceAt.raise _ _ _ _ _
  · split
    · exact TraceAt.raise _ _ _ _ _
    · apply TraceAt.bind (TraceAt.prepareArgs _ _ _ _ _ _ _)
      intro args _
      apply TraceAt.bind (TraceAt.checkArgs _ _ _ _ _)
      intro st' _
      exact TraceAt.ok _ _ _

theorem TraceAt.compileSimple {c : Option ChildFn} (hc : ChildTraced c) (ctx : Ctx) (cl : ClsDesc) (word : Str) (line : Nat)
    (arg : Option Str) (block : Option (List Node)) (st : St) :
    TraceAt ctx line (Duckling.compileSimple c ctx cl word line arg block st) := by
  unfold Duckling.compileSimple
  exact TraceAt.bind (TraceAt.simplePre _ _ _ _ _ _ _) (fun p _ => TraceAt.multiComp hc _ _ _ _ _ _ _ _)

theorem TraceAt.tokenizeCount (ctx : Ctx) (line : Nat) (l2 : Option Nat) (st : St) (s : Str) :
    TraceAt ctx line (Duckling.tokenizeCount ctx ⟨line, l2⟩ st s) := by
  unfold Duckling.tokenizeCount
  apply TraceAt.bind (TraceAt.evalIn _ _ _ _ _)
  intro v _
  simp only []
  trace_auto

theorem TraceAt.bindCounter (ctx : Ctx) (line : Nat) (l2 : Option Nat) (st : St) (var : Option Str) (n : Nat) (cst : St) :
    TraceAt ctx line (Duckling.bindCounter ctx ⟨line, l2⟩ st var n cst) := by
  unfold Duckling.bindCounter; trace_auto

theorem TraceAt.repeatLoop {c : Option ChildFn} (hc : ChildTraced c) (ctx : Ctx) (line : Nat) (l2 : Option Nat) (var : Option Str)
    (ce : Str) (body : List Node) (budget count : Nat) (st : St) (out : List Str) :
    TraceAt ctx line (Duckling.repeatLoop c ctx ⟨line, l2⟩ var ce body budget count st out) := by
  induction budget generalizing count st out with
  | zero => exact TraceAt.ok _ _ _
  | succ b ih =>
    unfold Duckling.repeatLoop
    apply TraceAt.bind (TraceAt.tokenizeCount _ _ _ _ _)
    intro n _
    split
    · exact TraceAt.ok _ _ _
    · apply TraceAt.guardChild
      apply TraceAt.bind (TraceAt.bindCounter _ _ _ _ _ _ _)
      intro cst _
      apply TraceAt.bind (TraceAt.runChild hc _ _ _ _ _ _ _)
      intro r _
      split
      · exact TraceAt.ok _ _ _
      · exact ih _ _ _

theorem TraceAt.whileLoop {c : Option ChildFn} (hc : ChildTraced c) (ctx : Ctx) (line : Nat) (l2 : Option Nat) (var : Option Str)
    (cond : Str) (body : List Node) (budget count : Nat) (st : St) (out : List Str) :
    TraceAt ctx line (Duckling.whileLoop c ctx ⟨line, l2⟩ var cond body budget count st out) := by
  induction budget generalizing count st out with
  | zero => exact TraceAt.raise _ _ _ _ _
  | succ b ih =>
    unfold Duckling.whileLoop
    apply TraceAt.guardChild
    apply TraceAt.bind (TraceAt.bindCounter _ _ _ _ _ _ _)
    intro cst _
    apply TraceAt.bind (TraceAt.evalIn _ _ _ _ _)
    intro cv _
    split
    · exact TraceAt.ok _ _ _
    · apply TraceAt.bind (TraceAt.runChild hc _ _ _ _ _ _ _)
      intro r _
      split
      · exact TraceAt.ok _ _ _
      · exact ih _ _ _

theorem TraceAt.ifPre (ctx : Ctx) (line : Nat) (l2 : Option Nat) (word : Str) (arg : Option Str) (st : St) :
    TraceAt ctx line (Duckling.ifPre ctx ⟨line, l2⟩ word arg st) := by
  unfold Duckling.ifPre Duckling.ifCond
  simp only []
  trace_auto

theorem TraceAt.blockPre (ctx : Ctx) (c : ClsDesc) (word : Str) (line : Nat) (arg : Option Str) (block : List Node) (hb : Bool) (st : St) :
    TraceAt ctx line (Duckling.blockPre ctx c word line arg block hb st) := by
  unfold Duckling.blockPre Duckling.funcPre Duckling.ignorePre Duckling.repeatPre
  simp only []
  have hif := fun a => TraceAt.ifPre ctx line none word a st
  trace_auto
  all_goals exact hif _

theorem TraceAt.runBlockAct {c : Option ChildFn} (hc : ChildTraced c) (ctx : Ctx) (line : Nat) (l2 : Option Nat) (block : List Node)
    (act : BlockAct) : TraceAt ctx line (Duckling.runBlockAct c ctx ⟨line, l2⟩ block act) := by
  cases act with
  | done o => exact TraceAt.ok _ _ _
  | body st =>
    unfold Duckling.runBlockAct
    exact TraceAt.bind (TraceAt.runChild hc _ _ _ _ _ _ _) (fun r _ => TraceAt.ok _ _ _)
  | «repeat» var ce st => exact TraceAt.repeatLoop hc _ _ _ _ _ _ _ _ _ _
  | «while» var cond st => exact TraceAt.whileLoop hc _ _ _ _ _ _ _ _ _ _

theorem TraceAt.compileBlock {c : Option ChildFn} (hc : ChildTraced c) (ctx : Ctx) (cl : ClsDesc) (word : Str) (line : Nat)
    (arg : Option Str) (block : List Node) (hb : Bool) (st : St) :
    TraceAt ctx line (Duckling.compileBlock c ctx cl word line arg block hb st) := by
  unfold Duckling.compileBlock
  exact TraceAt.bind (TraceAt.blockPre _ _ _ _ _ _ _ _) (fun act _ => TraceAt.runBlockAct hc _ _ _ _ _)

theorem TraceAt.stepCmd {c : Option ChildFn} (hc : ChildTraced c) (ctx : Ctx) (l : PreLine) (block : Option (List Node)) (st : St) :
    TraceAt ctx l.num (Duckling.stepCmd c ctx l block st) := by
  unfold Duckling.stepCmd
  split
  · exact TraceAt.crash _ _ _
  · simp only []
    split
    · split
      · exact TraceAt.compileBlock hc _ _ _ _ _ _ _ _
      · exact TraceAt.compileSimple hc _ _ _ _ _ _ _
    · exact TraceAt.compileSimple hc _ _ _ _ _ _ _

/-- the line numbers of the commands of a block -/
def lineNums : List Node → List Nat
  | [] => []
  | .line l :: rest => l.num :: lineNums rest
  | .block _ :: rest => lineNums rest

/-- every located error of a block names, right after the frames it was given, a frame of this stack
    (this file) at the line of one of the block's own commands -/
def RunTraced (ctx : Ctx) (nodes : List Node) (r : Res) : Prop :=
  ∀ e, r = .err e → ∀ t, e.trace = some t →
    ∃ fr rest, t = ctx.frames ++ fr :: rest ∧ fr.file = ctx.file ∧ fr.line ∈ lineNums nodes

theorem runNodes_traced {c : Option ChildFn} (hc : ChildTraced c) (ctx : Ctx) (nodes : List Node) (st : St) (out : List Str) :
    RunTraced ctx nodes (runNodes c ctx nodes st out) := by
  induction nodes generalizing st out with
  | nil => intro e h; cases h
  | cons n rest ih =>
    cases n with
    | block b =>
      unfold runNodes
      intro e h t ht
      obtain ⟨fr, r, h1, h2, h3⟩ := ih st out e h t ht
      exact ⟨fr, r, h1, h2, by simpa [lineNums] using h3⟩
    | line l =>
      unfold runNodes
      intro e h t ht
      cases hs : Duckling.stepCmd c ctx l (nextBlock rest) st with
      | ok r =>
        simp only [hs, R.bind_ok] at h
        split at h
        · obtain ⟨fr, rr, h1, h2, h3⟩ := ih _ _ e h t ht
          exact ⟨fr, rr, h1, h2, by simp [lineNums, h3]⟩
        · cases h
      | err e' =>
        simp only [hs, R.bind_err, R.err.injEq] at h
        subst h
        obtain ⟨l2, rr, h1⟩ := (TraceAt.stepCmd hc ctx l (nextBlock rest) st).out e' hs t ht
        exact ⟨_, rr, h1, rfl, by simp [lineNums]⟩
      | crash x => simp [hs] at h
      | oom x => simp [hs] at h

theorem exec_childTraced (d : Nat) : ChildTraced (some (exec d)) := by
  induction d with
  | zero =>
    intro run hr code ctx st e h t ht
    cases hr
    obtain ⟨fr, rest, h1, _, _⟩ := runNodes_traced (c := none) (by intro run h; cases h) ctx code st [] e h t ht
    exact ⟨fr, rest, h1⟩
  | succ d ih =>
    intro run hr code ctx st e h t ht
    cases hr
    obtain ⟨fr, rest, h1, _, _⟩ := runNodes_traced ih ctx code st [] e h t ht
    exact ⟨fr, rest, h1⟩

/-- C10: the trace of any located error of `exec d` -/
theorem exec_traced (d : Nat) (nodes : List Node) (ctx : Ctx) (st : St) : RunTraced ctx nodes (exec d nodes ctx st) := by
  cases d with
  | zero => exact runNodes_traced (c := none) (by intro run h; cases h) ctx nodes st []
  | succ d => exact runNodes_traced (exec_childTraced d) ctx nodes st []

end Duckling
