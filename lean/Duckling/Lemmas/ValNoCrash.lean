import Duckling.Model.Expr
import Duckling.Lemmas.RBasic
/-  The value operators never raise a host exception (after the `fix:` in `Operator.solve`).  -/
namespace Duckling

def Outcome.isCrash {α : Type} : Outcome α → Bool
  | .crash _ => true
  | _ => false

theorem mkFlt_no_crash (m : Int) (k : Nat) : Outcome.isCrash (Val.mkFlt m k) = false := by
  unfold Val.mkFlt; simp only; split <;> rfl

theorem mkNum_no_crash (f : Bool) (m : Int) (k : Nat) : Outcome.isCrash (Val.mkNum f m k) = false := by
  unfold Val.mkNum
  split
  · exact mkFlt_no_crash m k
  · split <;> rfl

theorem pyStr_isCrash (v : Val) : Outcome.isCrash v.pyStr = false := by
  cases v with
  | int i => simp only [Val.pyStr]; split <;> rfl
  | flt m k => simp only [Val.pyStr, Val.reprFlt]; split <;> rfl
  | str s => rfl
  | bool b => rfl
  | list l => rfl

theorem bind_no_crash {α β : Type} (x : Outcome α) (f : α → Outcome β)
    (hx : Outcome.isCrash x = false) (hf : ∀ a, Outcome.isCrash (f a) = false) : Outcome.isCrash (x >>= f) = false := by
  cases x with
  | ok a => exact hf a
  | cerr k => rfl
  | crash e => simp [Outcome.isCrash] at hx
  | oom w => rfl

theorem cmpOp_no_crash (op : String) (l r : Val) : Outcome.isCrash (Val.cmpOp op l r) = false := by
  unfold Val.cmpOp; simp only []
  split
  · rfl
  · rfl
  · split <;> rfl

theorem addOp_no_crash (l r : Val) : Outcome.isCrash (Val.addOp l r) = false := by
  unfold Val.addOp
  split
  · exact bind_no_crash _ _ (pyStr_isCrash _) (fun _ => rfl)
  · exact bind_no_crash _ _ (pyStr_isCrash _) (fun _ => rfl)
  · rfl
  · split
    · exact mkNum_no_crash _ _ _
    · rfl

theorem numOp_no_crash (op : String) (a : Int) (ka : Nat) (fa : Bool) (b : Int) (kb : Nat) (fb : Bool) :
    Outcome.isCrash (Val.numOp op a ka fa b kb fb) = false := by
  unfold Val.numOp; simp only []
  split
  · exact mkNum_no_crash _ _ _
  · exact mkNum_no_crash _ _ _
  · split
    · rfl
    · split
      · exact mkFlt_no_crash _ _
      · rfl
  · split
    · rfl
    · exact mkNum_no_crash _ _ _
  · split
    · rfl
    · exact mkNum_no_crash _ _ _
  · split
    · rfl
    · split
      · split
        · rfl
        · exact mkNum_no_crash _ _ _
      · split
        · rfl
        · split
          · rfl
          · split
            · exact mkFlt_no_crash _ _
            · rfl
  · rfl

theorem arithOp_no_crash (op : String) (l r : Val) : Outcome.isCrash (Val.arithOp op l r) = false := by
  unfold Val.arithOp
  split
  · split
    · rfl
    · split
      · split
        · rfl
        · split <;> rfl
      · split <;> rfl
      · split
        · rfl
        · exact numOp_no_crash _ _ _ _ _ _ _
  · split
    · rfl
    · split
      · split
        · rfl
        · split <;> rfl
      · split <;> rfl
      · split
        · rfl
        · exact numOp_no_crash _ _ _ _ _ _ _
  · rfl

theorem binop_no_crash (op : String) (l r : Val) : Outcome.isCrash (Val.binop op l r) = false := by
  unfold Val.binop
  split
  · split <;> rfl
  · split <;> rfl
  · split <;> rfl
  · exact cmpOp_no_crash _ _ _
  · exact cmpOp_no_crash _ _ _
  · exact cmpOp_no_crash _ _ _
  · exact cmpOp_no_crash _ _ _
  · exact addOp_no_crash _ _
  · exact arithOp_no_crash _ _ _

theorem isCrash_false_iff {α : Type} (o : Outcome α) : Outcome.isCrash o = false ↔ ∀ x, o ≠ .crash x := by
  cases o <;> simp [Outcome.isCrash]

end Duckling
