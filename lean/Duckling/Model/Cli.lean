import Duckling.Model.Compile
/-
  Cli — `cli/compile.py` (`compile`, `__prepare_and_compile`, the error report), `cli/new.py`,
  `cli/utils/config.py`, as a transformer of an abstract file system.

  Files are text; the two kinds of `config.yaml` are kept by *meaning* (the options they denote), which is the
  granularity the property speaks about.
-/
namespace Duckling

structure CliFS where
  files : FS                                 -- every file except configs
  projCfgs : List (Path × ProjCfg)           -- project config.yaml by folder
  globalCfg : Option Opts                    -- ~/.duckling/config.yaml (none = absent)
deriving Repr

def FS.write : FS → Path → Str → FS
  | [], p, text => [(p, text)]
  | (k, v) :: rest, p, text => if k == p then (p, text) :: rest else (k, v) :: FS.write rest p text

/-- what the command line shows for a failed compilation -/
structure Report where
  cls : EK
  trace : List Frame            -- `stack_traceback(5)`: the five innermost entries
  prints : List Print
deriving Repr

inductive CliOut
  | success (warnings : Nat) (prints : List Print)
  | failure (r : Report)
  | crash (e : String)
  | oom (w : String)
deriving Repr

/-- `Configuration.config`: load (or create with defaults) and save back -/
def loadGlobal (fs : CliFS) : Opts × CliFS :=
  match fs.globalCfg with
  | some o => (o, fs)
  | none => ({}, { fs with globalCfg := some {} })

/-- `cli.compile.compile(filename, output, stack_limit, comments)` -/
def cliCompile (fs : CliFS) (file output : Path) (stackLimit : Option Nat) (comments : Option Bool) : CliFS × CliOut :=
  let (g, fs1) := loadGlobal fs
  let opts : Opts := { g with stackLimit := stackLimit.getD g.stackLimit, comments := comments.getD g.comments }
  let (res, wr) := compileFile opts fs1.files fs1.projCfgs file
  let fs2 : CliFS := match wr with
    | some (dir, c) => { fs1 with projCfgs := (fs1.projCfgs.filter (·.1 != dir)) ++ [(dir, c)] }
    | none => fs1
  match res with
  | .ok out warns prints _ =>
    ({ fs2 with files := fs2.files.write output (joinWith ['\n'] out) }, .success warns.length prints)
  | .err e => (fs2, .failure ⟨e.k, ((e.trace.getD []).reverse.take 5).reverse, e.prints.getD []⟩)
  | .crash x => (fs2, .crash x)
  | .oom w => (fs2, .oom w)

def projNameOk (name : Str) : Bool := name.all (fun c => c.isLower || c.isDigit || c == '-')

/-- `cli.new.new(name, path)` (names already lower-cased, blanks replaced by `-`) -/
def cliNew (fs : CliFS) (dir : Path) (exists_ : Bool) (name : Str) : CliFS :=
  if !projNameOk name || exists_ then fs
  else { fs with files := fs.files.write (dir ++ ["main.txt"]) "STRING Hello, World!".toList,
                 projCfgs := fs.projCfgs ++ [(dir, ({} : Opts).toCfg)] }

end Duckling
