import Duckling.Model.Interp
/-
  Compile — `compiler.py`, `compile_options.py`, `project_environment.py`.
-/
namespace Duckling

inductive Result
  | ok (out : List Str) (warns : List Warn) (prints : List Print) (vars : List (Str × Val))
  | err (e : ErrInfo)
  | crash (e : String)
  | oom (why : String)
deriving Repr

/-- the three forms of source the API accepts -/
inductive Source
  | text (t : Str)                 -- `compile(str)`
  | lines (ls : List Str)          -- `compile(list of str)` (goes through the indentation parser)
  | tree (t : List RawTree)        -- `compile(nested list, skip_indentation=True)`
deriving Repr

def prepare : Source → Except TabErr (List Node)
  | .text t => parseLines (splitChar '\n' t)
  | .lines ls => parseLines ls
  | .tree t => .ok (convertRecur t 0)

/-- `init_env` of every palette class (`start_base(run_init=True)`) -/
def initEnv : VEnv :=
  if Generated.palette.any (fun c => c.hooks.contains "init_env") then
    { sys := [(sysVarDefaultDelay, .int 0)] }
  else {}

/-- `Compiler.compile` -/
def compile (opts : Opts) (fs : FS) (file : Option Path) (src : Source) : Result :=
  match prepare src with
  | .error (.tab n) => .err { k := .invalidTab, lineNo := some n }
  | .error (.quote n) => .err { k := .unclosedQuotations, lineNo := some n }
  | .ok nodes =>
    let ctx : Ctx := { opts := opts.flags, fs := fs, frames := [], file := file }
    match exec (opts.stackLimit - 1) nodes ctx { env := initEnv } with
    | .ok r =>
      let st := startBaseWarn r.st r.sig
      .ok r.out st.warns st.prints st.env.user
    | .err e => .err e
    | .crash e => .crash e
    | .oom w => .oom w

/-- a parsed `config.yaml`: the option fields it mentions -/
structure ProjCfg where
  stackLimit : Option Nat := none
  comments : Option Bool := none
  flipper : Option Bool := none
  suppress : Option Bool := none
  useProject : Option Bool := none
deriving Repr, DecidableEq, Inhabited

/-- `CompileOptions(**new_config)`: missing fields take the class defaults -/
def ProjCfg.toOpts (c : ProjCfg) : Opts :=
  let d : Opts := {}
  { stackLimit := c.stackLimit.getD d.stackLimit, comments := c.comments.getD d.comments,
    flipper := c.flipper.getD d.flipper, suppress := c.suppress.getD d.suppress,
    useProject := c.useProject.getD d.useProject }

def Opts.toCfg (o : Opts) : ProjCfg :=
  { stackLimit := some o.stackLimit, comments := some o.comments, flipper := some o.flipper,
    suppress := some o.suppress, useProject := some o.useProject }

/-- `ProjectEnvironment.calculate_options`: the effective options and, when the project file is
    used, the configuration written back to it -/
def calculateOptions (global : Opts) (proj : Option ProjCfg) : Opts × Option ProjCfg :=
  if !global.useProject then (global, none) else
  match proj with
  | none => (global, none)
  | some c =>
    let p := c.toOpts
    if !p.useProject then (global, none) else (p, some p.toCfg)

/-- `Compiler.compile_file`: the project configuration sits in the folder of the entry file -/
def compileFile (opts : Opts) (fs : FS) (cfgs : List (Path × ProjCfg)) (file : Path) :
    Result × Option (Path × ProjCfg) :=
  match fs.read file with
  | none => (.crash "FileNotFoundError", none)
  | some text =>
    let dir := parentDir file
    let (eff, wr) := calculateOptions opts ((cfgs.find? (·.1 == dir)).map (·.2))
    -- `Stack.__init__` compares the pile's length with the limit by `==`: a limit of 0 (only a configuration file can say so; the
    -- command line accepts 5..200) is never reached, i.e. disables the limit — outside the model's domain
    if eff.stackLimit == 0 then (.oom "a stack limit of 0 disables the limit", wr.map (dir, ·))
    else (compile eff fs (some file) (.text text), wr.map (dir, ·))

end Duckling
