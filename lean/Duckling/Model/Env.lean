import Duckling.Model.TabParse
import Duckling.Model.Value
import Duckling.Generated.Tables
/-
  Env — `variable_environment.py`, `environment.py`: the four dictionaries, name validation,
  entering a block (`append_env` into a fresh environment), leaving it normally
  (`update_from_env`) or in parallel (`append_env`).
-/
namespace Duckling

/-- absolute path as components below the root -/
abbrev Path := List String

structure Func where
  params : List Str
  code : List Node
  file : Option Path
deriving Repr, Inhabited

/-- Python `dict[k] = v` / `update({k: v})`: replace in place or append -/
def assocSet {β : Type} (l : List (Str × β)) (k : Str) (v : β) : List (Str × β) :=
  match l with
  | [] => [(k, v)]
  | (k', v') :: rest => if k' == k then (k, v) :: rest else (k', v') :: assocSet rest k v

def assocGet {β : Type} (l : List (Str × β)) (k : Str) : Option β :=
  match l with
  | [] => none
  | (k', v') :: rest => if k' == k then some v' else assocGet rest k

def assocHas {β : Type} (l : List (Str × β)) (k : Str) : Bool := (assocGet l k).isSome

/-- `d.update(e)` -/
def assocUpdate {β : Type} (d e : List (Str × β)) : List (Str × β) :=
  e.foldl (fun acc kv => assocSet acc kv.1 kv.2) d

structure VEnv where
  sys : List (Str × Val) := []
  user : List (Str × Val) := []
  temp : List (Str × Val) := []
  funcs : List (Str × Func) := []
deriving Repr, Inhabited

def acceptable (c : Char) : Bool := Generated.acceptableVars.toList.contains c

/-- `VariableEnvironment.is_var` (after the `fix:` rejecting "" and "$") -/
def isVar (name : Str) (canBeSys : Bool) : Bool :=
  match name with
  | [] => false
  | ['$'] => false
  | c :: rest =>
    (if c == '$' then canBeSys else (!isDigitC c && acceptable c)) && rest.all acceptable

namespace VEnv

/-- `all_vars`: system, then temp, then user (later wins) -/
def allVars (e : VEnv) : List (Str × Val) := assocUpdate (assocUpdate e.sys e.temp) e.user

def lookupVar (e : VEnv) (k : Str) : Option Val := assocGet e.allVars k

/-- the environment a child stack starts with: fresh, then `append_env(parent)`.
    Updating an empty dictionary with a dictionary copies it entry by entry, in order. -/
def enter (p : VEnv) : VEnv :=
  { sys := p.sys, user := p.user, temp := [], funcs := p.funcs }

/-- `update_from_env`: overwrite the names the parent already has; add nothing -/
def exitNormal (p c : VEnv) : VEnv :=
  { p with
    sys := p.sys.filterMap (fun kv => (assocGet c.sys kv.1).map (fun v => (kv.1, v))),
    user := p.user.filterMap (fun kv => (assocGet c.user kv.1).map (fun v => (kv.1, v))) }

/-- `append_env` back into the parent (START / STARTENV) -/
def exitParallel (p c : VEnv) : VEnv :=
  { p with sys := assocUpdate p.sys c.sys, user := assocUpdate p.user c.user,
           funcs := assocUpdate p.funcs c.funcs }

end VEnv
end Duckling
