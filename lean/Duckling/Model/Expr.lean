import Duckling.Model.Lexer
/-
  Expr — `__build_parse_trees`, `Operator.solve`, `Tokenizer.solve`
  (float→int normalisation and `!` at every parenthesis level).
-/
namespace Duckling

inductive Tree (V O : Type) where
  | leaf : V → Tree V O
  | node : O → Tree V O → Tree V O → Tree V O
deriving Repr

abbrev Pairs (V O : Type) := List (O × Tree V O)
abbrev Flat (V O : Type) := Tree V O × Pairs V O

/-- model of the inner `while index < len(parse_list)` loop for one precedence rank -/
def reducePass {V O : Type} (r : O → Bool) : Tree V O → Pairs V O → Flat V O
  | acc, [] => (acc, [])
  | acc, (o, t) :: rest =>
    if r o then reducePass r (.node o acc t) rest
    else (acc, (o, (reducePass r t rest).1) :: (reducePass r t rest).2)

/-- the two outer `for` loops: ranks in the order the code visits them (tightest first) -/
def reduceAll {V O : Type} : List (O → Bool) → Tree V O → Pairs V O → Flat V O
  | [], h, ps => (h, ps)
  | r :: rs, h, ps => reduceAll rs (reducePass r h ps).1 (reducePass r h ps).2

/-- the precedence ranks in visiting order, from the generated operator tables -/
def rankTable : List (List String) := Generated.opClasses.flatMap (·.precedence)

def ranks : List (Str → Bool) := rankTable.map fun r => fun o => r.contains (String.ofList o)

/-- alternate values and operators: `v₀ o₁ v₁ …` -/
def toFlat : List Tok → Option (Flat Tok Str)
  | [] => none
  | v :: rest =>
    let rec go : List Tok → Option (Pairs Tok Str)
      | [] => some []
      | o :: v :: rest => (go rest).map ((o.text, Tree.leaf v) :: ·)
      | [_] => none
    (go rest).map (Tree.leaf v, ·)

/-- `Number.set_value` -/
def numberValue (t : Str) : Outcome Val :=
  let neg := t.head? == some '-'
  let b := if neg then t.drop 1 else t
  let sgn : Int := if neg then -1 else 1
  if !b.isEmpty && b.all isDigitC then .ok (.int (sgn * digitsVal b))
  else if t.getLast? == some '.' then
    let d := b.dropLast
    if !d.isEmpty && d.all isDigitC then .ok (.int (sgn * digitsVal d)) else .crash "ValueError"
  else
    let ip := b.takeWhile isDigitC
    match b.dropWhile isDigitC with
    | '.' :: fp =>
      if fp.all isDigitC && !(ip.isEmpty && fp.isEmpty) then
        -- value = (ip.fp) = digits(ip ++ fp) / 10^|fp| ; dyadic iff the reduced denominator is a power of 2
        let n : Int := digitsVal (ip ++ fp)
        match Val.divDyadic (sgn * n) (10 ^ fp.length) with
        | some (p, k) => Val.mkFlt p k
        | none => .oom "decimal literal is not a dyadic rational"
      else .crash "ValueError"
    | _ => .crash "ValueError"

def stripParens (t : Str) : Str :=
  let inner := if t.head? == some '(' then t.drop 1 else t
  if inner.getLast? == some ')' then inner.dropLast else inner

abbrev VarEnv := List (Str × Val)

mutual
/-- `Token.solve` for value tokens; `Tokenizer.solve` for groups (fuel = length of the text) -/
def evalTok (vars : VarEnv) : Nat → Tok → Outcome Val
  | 0, _ => .oom "eval fuel"
  | f + 1, t =>
    match t.cls with
    | .num => numberValue t.text
    | .str => .ok (.str t.text)
    | .bool => .ok (.bool (t.text == "TRUE".toList))
    | .var => match vars.lookup t.text with | some v => .ok v | none => .cerr .expectedToken
    | .grp => solveOpp vars f (stripParens t.text) t.opp
    | _ => .oom "operator token in value position"
def evalTree (vars : VarEnv) : Nat → Tree Tok Str → Outcome Val
  | 0, _ => .oom "eval fuel"
  | f + 1, .leaf t => evalTok vars f t
  | f + 1, .node op l r => do
    let a ← evalTree vars f l
    let b ← evalTree vars f r
    Val.binop (String.ofList op) a b
/-- `Tokenizer.solve` -/
def solveOpp (vars : VarEnv) : Nat → Str → Bool → Outcome Val
  | 0, _, _ => .oom "eval fuel"
  | f + 1, s, opp => do
    let toks ← lex (vars.map (·.1)) s
    match toFlat toks with
    | none => .cerr .expectedToken
    | some (h, ps) =>
      let (h', ps') := reduceAll ranks h ps
      if !ps'.isEmpty then .cerr .expectedToken else do
        let v ← evalTree vars f h'
        let v := v.normalise
        if opp then .ok (.bool (!v.truthy)) else .ok v
end

/-- depth of the deepest tree/group nesting is bounded by the text length -/
def evalFuel (s : Str) : Nat := 3 * s.length + 10

/-- `Tokenizer.tokenize(string, stack, env)` -/
def tokenize (vars : VarEnv) (s : Str) : Outcome Val := solveOpp vars (evalFuel s) s false

end Duckling
