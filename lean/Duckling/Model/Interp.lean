import Duckling.Model.Env
import Duckling.Model.Expr
/-
  Interp — `stack.py` (run / dispatch / warnings / prints / traces), `simple_command.py`
  (the argument pipeline with its `line_2` bookkeeping), `block_command.py` and every command
  class.  Open recursion: everything that creates a child stack goes through `child`, and
  `exec d` (d = stacks that may still be created) is defined by structural recursion on `d`;
  loops recurse on their remaining iteration budget.  No artificial fuel.
-/
namespace Duckling

inductive Sig | normal | ret | brk | cont
deriving Repr, DecidableEq, Inhabited

def Sig.name : Sig → String
  | .normal => "NORMAL" | .ret => "RETURN" | .brk => "BREAK" | .cont => "CONTINUE"

/-- a `StackTraceNode`: file, line number, line_2 number -/
structure Frame where
  file : Option Path
  line : Nat
  line2 : Option Nat
deriving Repr, DecidableEq, Inhabited

inductive WarnKind
  | notExist (line : Nat)
  | defaultDelayMulti
  | exitedUsing (s : Sig)
deriving Repr, DecidableEq

structure Warn where
  kind : WarnKind
  trace : Option (List Frame)
deriving Repr, DecidableEq

/-- a `StdOutData` -/
structure Print where
  text : Str
  line : Nat
  file : Option Path
deriving Repr, DecidableEq

structure Opts where
  stackLimit : Nat := Generated.optDefaults.stackLimit
  comments : Bool := Generated.optDefaults.includeComments
  flipper : Bool := Generated.optDefaults.flipperCommands
  suppress : Bool := Generated.optDefaults.suppressNotExist
  useProject : Bool := Generated.optDefaults.useProjectConfig
deriving Repr, DecidableEq, Inhabited

/-- the file system: normalised absolute paths to text -/
abbrev FS := List (Path × Str)

def FS.read (fs : FS) (p : Path) : Option Str := (fs.find? (·.1 == p)).map (·.2)

structure St where
  env : VEnv := {}
  warns : List Warn := []
  prints : List Print := []
deriving Repr, Inhabited

/-- everything a stack knows about where it is -/
structure Ctx where
  opts : Opts
  fs : FS
  frames : List Frame := []     -- the stacks below this one, outermost first, as they stood when this one was created
  file : Option Path := none
deriving Repr, Inhabited

/-- a compile error as the caller of the API sees it: its class, `stack_traceback(-1)` (none when
    the error carries no stack: tab and quotation errors), the prints captured so far (same), and
    for tab/quotation errors the line number the message names -/
structure ErrInfo where
  k : EK
  trace : Option (List Frame) := none
  prints : Option (List Print) := none
  lineNo : Option Nat := none
deriving Repr, DecidableEq

/-- outcome of running something that can fail with a located compile error -/
inductive R (α : Type)
  | ok (a : α)
  | err (e : ErrInfo)
  | crash (e : String)
  | oom (why : String)
deriving Repr

instance : Monad R where
  pure := .ok
  bind x f := match x with
    | .ok a => f a | .err e => .err e | .crash e => .crash e | .oom w => .oom w

/-- a `CompiledReturn` plus the state after it -/
structure Out where
  st : St
  out : List Str := []
  sig : Sig := .normal
deriving Repr, Inhabited

abbrev Res := R Out

/-- running a block in a child stack -/
abbrev ChildFn := List Node → Ctx → St → Res

/-- where the current stack stands: its current line and line_2 -/
structure Pos where
  line : Nat
  line2 : Option Nat := none
deriving Repr, Inhabited

def Ctx.trace (ctx : Ctx) (pos : Pos) : List Frame := ctx.frames ++ [⟨ctx.file, pos.line, pos.line2⟩]

/-- raise a located compile error from the current stack -/
def raise {α : Type} (ctx : Ctx) (pos : Pos) (st : St) (k : EK) : R α :=
  .err { k := k, trace := some (ctx.trace pos), prints := some st.prints }

/-- lift an evaluator outcome, attaching trace and prints -/
def liftO {α : Type} (ctx : Ctx) (pos : Pos) (st : St) : Outcome α → R α
  | .ok a => .ok a
  | .cerr k => raise ctx pos st k
  | .crash e => .crash e
  | .oom w => .oom w

def evalIn (ctx : Ctx) (pos : Pos) (st : St) (s : Str) : R Val :=
  liftO ctx pos st (tokenize st.env.allVars s)

/-- `WarningsObject.append`: no duplicates -/
def addWarn (st : St) (w : Warn) : St :=
  if st.warns.contains w then st else { st with warns := st.warns ++ [w] }

/-- the context of a child stack created from position `pos` -/
def Ctx.child (ctx : Ctx) (pos : Pos) (file : Option Path) : Ctx :=
  { ctx with frames := ctx.trace pos, file := file }

/-- `add_stack_above`: the overflow check happens in `Stack.__init__` before anything else -/
def withChild (child : Option ChildFn) (ctx : Ctx) (pos : Pos) (st : St) (f : ChildFn → Res) : Res :=
  match child with
  | none => .err { k := .stackOverflow, trace := some (ctx.trace pos), prints := some st.prints }
  | some c => f c

def withChildRC {α : Type} (child : Option ChildFn) (ctx : Ctx) (pos : Pos) (st : St) (f : ChildFn → R α) : R α :=
  match child with
  | none => .err { k := .stackOverflow, trace := some (ctx.trace pos), prints := some st.prints }
  | some c => f c

/-- state handed back by a finished child: warnings and prints are shared; the environment is
    copied back according to the exit mode -/
def leave (parallel : Bool) (parent : St) (c : St) : St :=
  { env := if parallel then parent.env.exitParallel c.env else parent.env.exitNormal c.env,
    warns := c.warns, prints := c.prints }

def enterSt (st : St) : St := { st with env := st.env.enter }

/-! ### the simple-command pipeline -/

/-- an argument `Line`: content, its own line number, and the line its `original` PreLine has -/
structure Arg where
  content : Val
  lineNum : Nat
  orig : Nat
deriving Repr, Inhabited

def Arg.str (a : Arg) : Str := match a.content with | .str s => s | _ => []

def hasHook (c : ClsDesc) (h : String) : Bool := c.hooks.contains h

def sysVarDefaultDelay : Str := "$DEFAULT_DELAY".toList

/-- `listify_args` (with the `fix:` for nested blocks) -/
def listifyArgs (arg : Option Str) (block : Option (List Node)) (line : Nat) : Option (List Arg) :=
  let first : List Arg := match arg with
    | some a => if a.isEmpty then [] else [⟨.str a, line, line⟩]
    | none => []
  let rec go : List Node → Option (List Arg)
    | [] => some []
    | .line l :: rest => (go rest).map (⟨.str l.content, l.num, l.num⟩ :: ·)
    | .block _ :: _ => none
  match block with
  | none => some first
  | some b => (go b).map (first ++ ·)

/-- `evaluate_args` -/
def evaluateArgs (ctx : Ctx) (line : Nat) (st : St) (stringify : Bool) : List Arg → R (List Arg)
  | [] => .ok []
  | a :: rest => do
    let v ← evalIn ctx ⟨line, some a.orig⟩ st a.str
    let rest' ← evaluateArgs ctx line st stringify rest
    .ok ({ a with content := v } :: rest')

def stringifyArgs (ctx : Ctx) (line : Nat) (st : St) : List Arg → R (List Arg)
  | [] => .ok []
  | a :: rest => do
    let s ← liftO ctx ⟨line, none⟩ st a.content.pyStr
    let rest' ← stringifyArgs ctx line st rest
    .ok ({ a with content := .str s } :: rest')

/-- `__verify_arg`: the `arg_type` check (with the `fix:` rejecting bool for int) -/
def typeOk (t : ArgType) (v : Val) : Bool :=
  match t, v with
  | .doc, _ => true
  | .str, .str _ => true
  | .int, .int _ => true
  | _, _ => false

def isListVal : Val → Bool | .list _ => true | _ => false

/-- `__verify_args` -/
def verifyTypes (ctx : Ctx) (line : Nat) (st : St) (t : ArgType) : List Arg → R Unit
  | [] => .ok ()
  | a :: rest =>
    if !typeOk t a.content || isListVal a.content then raise ctx ⟨line, some a.orig⟩ st .invalidArguments
    else verifyTypes ctx line st t rest

def paramsOf (c : ClsDesc) : List Str := c.params.map String.toList

/-- the `verify_arg` hooks, keyed by class name; `true` = acceptable -/
def verifyArgHook (c : ClsDesc) (a : Arg) : Bool :=
  if !hasHook c "verify_arg" then true else
  match c.cname with
  | "Alt" | "Ctrl" => (paramsOf c).contains (upper a.str) || a.str.length == 1
  | "Shift" => (paramsOf c).contains (upper a.str)
  | "Gui" | "FlipperSysrq" | "FlipperModifierKeys" => a.str.length == 1
  | "Delay" | "DefaultDelay" => match a.content with | .int i => !(i < 0) | _ => true
  | "Whitespace" => match a.content with | .int i => (i > -1 && i < 100) | _ => true
  | "Start" => !(endsWith ['.'] a.str)
  | "Var" => match splitWs1 (strip a.str) with | some (_, some _) => true | _ => false
  | "FlipperAltChar" => let s := strip a.str; !s.isEmpty && s.all isDigitC && s.length ≤ 4
  | _ => true

def verifyEach (ctx : Ctx) (line : Nat) (st : St) (c : ClsDesc) : List Arg → R Unit
  | [] => .ok ()
  | a :: rest =>
    if !verifyArgHook c a then raise ctx ⟨line, some a.orig⟩ st .invalidArguments
    else verifyEach ctx line st c rest

/-- the `format_arg` hooks -/
def formatArg (c : ClsDesc) (a : Arg) : Arg :=
  if !hasHook c "format_arg" then a else
  match c.cname with
  | "Alt" => if (paramsOf c).contains (upper a.str) then { a with content := .str (upper a.str) } else a
  | "Ctrl" => a      -- `arg if arg not in parameters else arg.upper()` changes nothing
  | _ => a

/-- `SimpleCommand.run_compile` -/
def defaultEmit (name : Str) (a : Option Arg) : R (List Str) :=
  match a with
  | none => .ok [upper name]
  | some a =>
    match a.content with
    | .str s => .ok [upper name ++ [' '] ++ s]
    | .int i => if Val.hugeInt i then .oom "str() of a huge int" else .ok [upper name ++ [' '] ++ intToStr i]
    | _ => .oom "formatting a non-str, non-int argument"

def breakArg (s : Str) : Str × Option Str :=
  match splitChar1 ' ' s with
  | (a, none) => (a, none)
  | (a, some r) => (a, some (strip r))

/-- `Start.convert_to_path` up to the file-system lookup -/
def climb : Str → Path → Option (Str × Path)
  | '.' :: rest, dir => if dir.isEmpty then none else climb rest dir.dropLast
  | rel, dir => some (rel, dir)

def hasDoubleDot : Str → Bool
  | '.' :: '.' :: _ => true
  | _ :: rest => hasDoubleDot rest
  | [] => false

def pathCharOk (c : Char) : Bool := c.isAlphanum || c == '_' || c == '-' || c == '.'

def parentDir (file : Path) : Path := file.dropLast

def resolveImport (file : Path) (arg : Str) : Except EK Path :=
  match climb arg (parentDir file) with
  | none => .error .unexpectedToken
  | some (rel, dir) =>
    if hasDoubleDot rel then .error .unexpectedToken
    else
      let comps := (splitChar '.' rel).map String.ofList
      match comps.reverse with
      | [] => .error .invalidArguments
      | last :: initRev => .ok (dir ++ initRev.reverse ++ [last ++ Generated.scriptExtension])

/-- `str.splitlines()` on the model's alphabet (LF only; no trailing empty line) -/
def splitLines (s : Str) : List Str :=
  let parts := splitChar '\n' s
  match parts.reverse with
  | [] :: r => r.reverse
  | _ => parts

def startBaseWarn (st : St) (sig : Sig) : St :=
  if sig == .normal || sig == .ret then st else addWarn st ⟨.exitedUsing sig, none⟩

/-- what one `run_compile` call hands back: `sig = none` for a `None` or list result (the
    accumulated signal is left alone), `some s` for a str (normal) or a `CompiledReturn` -/
structure RC where
  st : St
  out : List Str := []
  sig : Option Sig := none
deriving Repr, Inhabited

/-- `run_compile` of every simple class for one (optional) argument.
    `pos.line2` is already set by `__multi_comp`. -/
def runCompile (child : Option ChildFn) (ctx : Ctx) (c : ClsDesc) (name : Str) (line : Nat)
    (a : Option Arg) (st : St) : R RC :=
  let pos : Pos := ⟨line, some (match a with | some a => a.orig | none => line)⟩
  let dflt : R RC := do let ls ← defaultEmit name a; .ok { st := st, out := ls, sig := some .normal }
  if !hasHook c "run_compile" then dflt else
  match c.cname with
  | "BreakLoop" => .ok { st := st, sig := some .brk }
  | "ContinueLoop" => .ok { st := st, sig := some .cont }
  | "Return" => .ok { st := st, sig := some .ret }
  | "Pass" => .ok { st := st }
  | "Rem" => if ctx.opts.comments then dflt else .ok { st := st }
  | "Print" =>
    match a with
    | none => .ok { st := st }
    | some a => .ok { st := { st with prints := st.prints ++ [⟨a.str, a.lineNum, ctx.file⟩] }, sig := some .normal }
  | "Enter" =>
    match a with
    | none => dflt
    | some a => match a.content with
      | .int n => if n > 100000 then .oom "huge count" else .ok { st := st, out := List.replicate n.toNat "ENTER".toList }
      | _ => .crash "TypeError"
  | "Whitespace" =>
    match a with
    | none => .ok { st := st, out := [[]], sig := some .normal }
    | some a => match a.content with
      | .int n => .ok { st := st, out := List.replicate n.toNat [] }
      | _ => .crash "TypeError"
  | "DefaultDelay" =>
    match a with
    | none => .crash "AttributeError"
    | some a =>
      if !assocHas st.env.sys sysVarDefaultDelay then raise ctx pos st .varIsNonExistent
      else do
        let ls ← defaultEmit name (some a)
        .ok { st := { st with env := { st.env with sys := assocSet st.env.sys sysVarDefaultDelay a.content } }, out := ls,
              sig := some .normal }
  | "Exist" =>
    match a with
    | none => .crash "AttributeError"
    | some a => if assocHas st.env.allVars a.str then .ok { st := st } else raise ctx pos st .general
  | "NotExist" =>
    match a with
    | none => .crash "AttributeError"
    | some a => if !assocHas st.env.allVars a.str then .ok { st := st } else raise ctx pos st .general
  | "Var" =>
    match a with
    | none => .crash "AttributeError"
    | some a =>
      match splitWs1 a.str with
      | some (nm, some value) => do
        let v ← evalIn ctx pos st value
        if !isVar nm false then raise ctx pos st .unacceptableVarName
        else if isListVal v then .oom "a list stored in a variable (aliasing is not modelled)"
        else .ok { st := { st with env := { st.env with user := assocSet st.env.user nm v } } }
      | _ => .crash "ValueError"
  | "Run" =>
    match a with
    | none => .crash "AttributeError"
    | some a => do
      let (fname, varStr) := breakArg a.str
      let vals ← match varStr with
        | none => pure []
        | some vs =>
          if (strip vs).isEmpty then pure [] else do
            let v ← evalIn ctx pos st vs
            match v with
            | .list l => pure l
            | v => pure [v]
      match assocGet st.env.funcs fname with
      | none => raise ctx pos st .varIsNonExistent
      | some fn =>
        if fn.params.length != vals.length then raise ctx pos st .invalidArguments
        else if vals.any isListVal then .oom "a list bound to a parameter (aliasing is not modelled)"
        else
          withChildRC child ctx pos st fun run => do
            let file := match fn.file with | some f => some f | none => ctx.file
            let cst := enterSt st
            let cst := { cst with env := { cst.env with
              user := (fn.params.zip vals).foldl (fun u pv => assocSet u pv.1 pv.2) cst.env.user } }
            let r ← run fn.code (ctx.child pos file) cst
            let st' := leave false st r.st
            if r.sig == .brk || r.sig == .cont then raise ctx pos st' .stackReturnType
            else .ok { st := st', out := r.out, sig := some .normal }
  | "Start" =>
    match a, ctx.file with
    | some a, some file =>
      if !a.str.all pathCharOk then .oom "import path outside the modelled alphabet" else
      match resolveImport file a.str with
      | .error k => raise ctx pos st k
      | .ok target =>
        match ctx.fs.read target with
        | none => raise ctx pos st .invalidArguments
        | some text =>
          if (ctx.frames.map (·.file) ++ [ctx.file]).contains (some target) then raise ctx pos st .circularStructure
          else
            match parseLines (splitLines text) with
            | .error (.tab n) => .err { k := .invalidTab, lineNo := some n }
            | .error (.quote n) => .err { k := .unclosedQuotations, lineNo := some n }
            | .ok nodes =>
              let parallel := upper name != "STARTCODE".toList
              withChildRC child ctx pos st fun run => do
                let r ← run nodes (ctx.child pos (some target)) (enterSt st)
                let cst := startBaseWarn r.st r.sig
                let st' := leave parallel st cst
                if upper name == "STARTENV".toList then .ok { st := st' }
                else .ok { st := st', out := r.out }
    | _, _ => .crash "TypeError"
  | _ => dflt

/-- `__multi_comp`: run `run_compile` for every argument (or once with none), accumulating -/
def multiComp (child : Option ChildFn) (ctx : Ctx) (c : ClsDesc) (name : Str) (line : Nat) :
    List (Option Arg) → St → List Str → Sig → Res
  | [], st, out, sig => .ok { st := st, out := out, sig := sig }
  | a :: rest, st, out, sig => do
    let r ← runCompile child ctx c name line a st
    let sig' := r.sig.getD sig
    multiComp child ctx c name line rest r.st (out ++ r.out) sig'

/-- `SimpleCommand.compile` -/
def compileSimple (child : Option ChildFn) (ctx : Ctx) (c : ClsDesc) (word : Str) (line : Nat)
    (arg : Option Str) (block : Option (List Node)) (st : St) : Res :=
  let pos0 : Pos := ⟨line, none⟩
  if c.flipperOnly && !ctx.opts.flipper then raise ctx pos0 st .invalidCommand else
  if c.cname == "Start" && ctx.file.isNone then raise ctx pos0 st .notAValidCommand else
  let dollar := startsWith ['$'] (upper word)
  let name := if dollar then word.drop 1 else word
  let tok := c.tokenize || dollar
  match listifyArgs arg block line with
  | none => raise ctx pos0 st .invalidArguments
  | some args => do
    let args := if c.strip then args.map (fun a => { a with content := .str (strip a.str) }) else args
    let args ← if tok then do
        let ev ← evaluateArgs ctx line st true args
        if c.argType == .int then pure ev else stringifyArgs ctx line st ev
      else pure args
    if !args.isEmpty && c.argReq == .notAllowed then raise ctx pos0 st .invalidArguments
    else if args.isEmpty && c.argReq == .required then raise ctx pos0 st .invalidArguments
    else do
      verifyTypes ctx line st c.argType args
      -- the `verify_args` hooks
      let st ← if hasHook c "verify_args" then
          match c.cname with
          | "DefaultDelay" =>
            if args.length > 1 then pure (addWarn st ⟨.defaultDelayMulti, some (ctx.trace pos0)⟩) else pure st
          | "Return" => if args.length > 1 then raise ctx pos0 st .invalidArguments else pure st
          | _ => pure st
        else pure st
      verifyEach ctx line st c args
      let args := args.map (formatArg c)
      let items : List (Option Arg) := if args.isEmpty then [none] else args.map some
      multiComp child ctx c name line items st [] .normal

/-! ### block commands -/

/-- `Repeat.parse_argument` / `While.parse_argument` -/
def parseLoopArg (s : Str) : Option Str × Str :=
  match splitChar1 ',' s with
  | (a, none) => (none, a)
  | (a, some r) => (some a, r)

def repeatLimit : Nat := Generated.repeatLimit
def whileLimit : Nat := Generated.whileLimit

/-- `Repeat.tokenize_count` -/
def tokenizeCount (ctx : Ctx) (pos : Pos) (st : St) (s : Str) : R Nat := do
  let v ← evalIn ctx pos st s
  let n : Option Int := match v with
    | .int i => some i
    | .bool b => some (if b then 1 else 0)
    | _ => none
  match n with
  | none => raise ctx pos st .invalidArguments
  | some i => if i < 0 || i > repeatLimit then raise ctx pos st .invalidArguments else .ok i.toNat

/-- one loop iteration's bookkeeping shared by REPEAT and WHILE:
    `none` = the loop goes on; `some sig` = it stops with that signal -/
def shouldBreak : Sig → Option Sig
  | .cont => none
  | .brk => some .normal
  | .normal => none
  | .ret => some .ret

/-- the `while count < self.tokenize_count(argument)` loop; `budget` bounds the iterations that
    can still happen (`count < n ≤ repeatLimit`) -/
def repeatLoop (child : Option ChildFn) (ctx : Ctx) (pos : Pos) (var : Option Str) (countExpr : Str)
    (body : List Node) : Nat → Nat → St → List Str → Res
  | 0, _, st, out => .ok { st := st, out := out }       -- unreachable: count < n ≤ limit
  | budget + 1, count, st, out => do
    let n ← tokenizeCount ctx pos st countExpr
    if !(count < n) then .ok { st := st, out := out, sig := .normal }
    else
      withChild child ctx pos st fun run => do
        let cst := enterSt st
        let cst ← match var with
          | none => pure cst
          | some v =>
            if !isVar v false then raise ctx pos st .unacceptableVarName
            else pure { cst with env := { cst.env with user := assocSet cst.env.user v (.int count) } }
        let r ← run body (ctx.child pos ctx.file) cst
        let st' := leave false st r.st
        match shouldBreak r.sig with
        | some s => .ok { st := st', out := out ++ r.out, sig := s }
        | none => repeatLoop child ctx pos var countExpr body budget (count + 1) st' (out ++ r.out)

/-- the `while True` loop of WHILE; `budget` = iterations that may still start -/
def whileLoop (child : Option ChildFn) (ctx : Ctx) (pos : Pos) (var : Option Str) (cond : Str)
    (body : List Node) : Nat → Nat → St → List Str → Res
  | 0, _, st, _ => raise ctx pos st .exceededLimit
  | budget + 1, count, st, out =>
    withChild child ctx pos st fun run => do
      let cst := enterSt st
      let cst ← match var with
        | none => pure cst
        | some v =>
          if !isVar v false then raise ctx pos st .unacceptableVarName
          else pure { cst with env := { cst.env with user := assocSet cst.env.user v (.int count) } }
      let cv ← evalIn ctx pos cst cond
      if !cv.truthy then .ok { st := leave false st cst, out := out, sig := .normal }
      else do
        let r ← run body (ctx.child pos ctx.file) cst
        let st' := leave false st r.st
        match shouldBreak r.sig with
        | some s => .ok { st := st', out := out ++ r.out, sig := s }
        | none => whileLoop child ctx pos var cond body budget (count + 1) st' (out ++ r.out)

def ifSuccess : Str := Generated.ifSuccess.toList

/-- `BlockCommand.compile` + `run_compile` of the block classes -/
def compileBlock (child : Option ChildFn) (ctx : Ctx) (c : ClsDesc) (word : Str) (line : Nat)
    (arg : Option Str) (block : List Node) (hasBlock : Bool) (st : St) : Res :=
  let pos : Pos := ⟨line, none⟩
  if c.flipperOnly && !ctx.opts.flipper then raise ctx pos st .invalidCommand else
  let argPresent := match arg with | some a => !a.isEmpty | none => false
  if argPresent && c.argReq == .notAllowed then raise ctx pos st .invalidArguments
  else if !argPresent && c.argReq == .required then raise ctx pos st .invalidArguments
  else
    let arg := if c.strip then arg.map strip else arg
    match c.cname with
    | "If" =>
      let name := upper word
      let st := if assocHas st.env.temp ifSuccess then st
                else { st with env := { st.env with temp := assocSet st.env.temp ifSuccess (.bool false) } }
      if arg.isNone && name != "ELSE".toList then raise ctx pos st .invalidArguments
      else if arg.isSome && name == "ELSE".toList then raise ctx pos st .invalidArguments
      else do
        let cond ← if name != "ELSE".toList then do
            let v ← evalIn ctx pos st (arg.getD [])
            pure v.truthy
          else pure true
        let flag := match assocGet st.env.temp ifSuccess with | some v => v.truthy | none => false
        let setFlag := fun (st : St) (b : Bool) =>
          { st with env := { st.env with temp := assocSet st.env.temp ifSuccess (.bool b) } }
        let (st, skip) := if name == "IF".toList then (setFlag st false, false) else (st, flag)
        if skip then .ok { st := st }
        else if !cond then .ok { st := st }
        else
          let st := setFlag st true
          withChild child ctx pos st fun run => do
            let r ← run block (ctx.child pos ctx.file) (enterSt st)
            .ok { st := leave false st r.st, out := r.out, sig := r.sig }
    | "Func" =>
      let (fname, varStr) := breakArg (arg.getD [])
      let params : List Str := match varStr with
        | none => []
        | some vs => if vs.isEmpty then [] else (splitChar ',' vs).map strip
      if !isVar fname false then raise ctx pos st .unacceptableVarName
      else if !params.all (fun p => isVar p false) then raise ctx pos st .unacceptableVarName
      else .ok { st := { st with env := { st.env with funcs := assocSet st.env.funcs fname ⟨params, block, ctx.file⟩ } } }
    | "Ignore" =>
      let rec raw : List Node → Option (List Str)
        | [] => some []
        | .line l :: rest => (raw rest).map (l.content :: ·)
        | .block _ :: _ => none
      match raw block with
      | none => raise ctx pos st .general
      | some ls => .ok { st := st, out := ls }
    | "Repeat" =>
      let (var, countExpr) := parseLoopArg (arg.getD [])
      if !hasBlock then
        if var.isSome then raise ctx pos st .invalidArguments
        else .ok { st := st, out := ["REPEAT ".toList ++ countExpr] }
      else
        match var with
        | some v => if !isVar v false then raise ctx pos st .unacceptableVarName
                    else repeatLoop child ctx pos var countExpr block (repeatLimit + 1) 0 st []
        | none => repeatLoop child ctx pos var countExpr block (repeatLimit + 1) 0 st []
    | "While" =>
      let (var, cond) := parseLoopArg (arg.getD [])
      whileLoop child ctx pos var cond block (whileLimit + 1) 0 st []
    | _ => .oom ("block command class not modelled: " ++ c.cname)

/-! ### dispatch and the statement loop -/

/-- `isThisCommand` of a palette class -/
def isThisCommand (c : ClsDesc) (word : Str) (hasBlock : Bool) : Bool :=
  let up := String.ofList (upper word)
  if c.isBlock then
    if (startsWith ['$'] word && c.names.contains (String.ofList ((upper word).drop 1))) ||
       (c.blockRequired && !hasBlock) then false
    else c.names.contains up
  else
    let up' := if startsWith ['$'] (upper word) then String.ofList ((upper word).drop 1) else up
    c.names.contains up'

def dispatch (word : Str) (hasBlock : Bool) : Option ClsDesc :=
  Generated.palette.find? (fun c => isThisCommand c word hasBlock)

/-- one command line of `Stack.run` -/
def stepCmd (child : Option ChildFn) (ctx : Ctx) (l : PreLine) (block : Option (List Node)) (st : St) : Res :=
  match splitWs1 l.content with
  | none => .crash "IndexError"
  | some (word, arg) =>
    let hasBlock := match block with | some b => !b.isEmpty | none => false
    match dispatch word hasBlock with
    | some c =>
      if c.isBlock then compileBlock child ctx c word l.num arg (block.getD []) hasBlock st
      else compileSimple child ctx c word l.num arg block st
    | none =>
      let st := if ctx.opts.suppress then st
                else addWarn st ⟨.notExist l.num, some (ctx.trace ⟨l.num, none⟩)⟩
      compileSimple child ctx Generated.generic word l.num arg block st

/-- `Stack.run` -/
def runNodes (child : Option ChildFn) (ctx : Ctx) : List Node → St → List Str → Res
  | [], st, out => .ok { st := st, out := out, sig := .normal }
  | .block _ :: rest, st, out => runNodes child ctx rest st out
  | .line l :: rest, st, out =>
    let block := match rest with | .block b :: _ => some b | _ => none
    match stepCmd child ctx l block st with
    | .ok r =>
      if r.sig == .normal then runNodes child ctx rest r.st (out ++ r.out)
      else .ok { st := r.st, out := out ++ r.out, sig := r.sig }
    | .err e => .err e
    | .crash e => .crash e
    | .oom w => .oom w

/-- `d` = how many more stacks may be created above this one (`stack_limit − len(pile)`) -/
def exec : Nat → ChildFn
  | 0 => fun nodes ctx st => runNodes none ctx nodes st []
  | d + 1 => fun nodes ctx st => runNodes (some (exec d)) ctx nodes st []

end Duckling
