import Duckling.Model.Env
import Duckling.Model.Expr
/-
  Interp — `stack.py` (run / dispatch / warnings / prints / traces), `simple_command.py`
  (the argument pipeline with its `line_2` bookkeeping), `block_command.py` and every command
  class.  Open recursion: everything that creates a child stack goes through `child`, and
  `exec d` (d = stacks that may still be created) is defined by structural recursion on `d`;
  loops recurse on their remaining iteration budget.  No artificial fuel.
-/
namespace Duckling

inductive Sig | normal | ret | brk | cont
deriving Repr, DecidableEq, Inhabited

def Sig.name : Sig → String
  | .normal => "NORMAL" | .ret => "RETURN" | .brk => "BREAK" | .cont => "CONTINUE"

/-- a `StackTraceNode`: file, line number, line_2 number -/
structure Frame where
  file : Option Path
  line : Nat
  line2 : Option Nat
deriving Repr, DecidableEq, Inhabited

inductive WarnKind
  | notExist (line : Nat)
  | defaultDelayMulti
  | exitedUsing (s : Sig)
deriving Repr, DecidableEq

structure Warn where
  kind : WarnKind
  trace : Option (List Frame)
deriving Repr, DecidableEq

/-- a `StdOutData` -/
structure Print where
  text : Str
  line : Nat
  file : Option Path
deriving Repr, DecidableEq

structure Opts where
  stackLimit : Nat := Generated.optDefaults.stackLimit
  comments : Bool := Generated.optDefaults.includeComments
  flipper : Bool := Generated.optDefaults.flipperCommands
  suppress : Bool := Generated.optDefaults.suppressNotExist
  useProject : Bool := Generated.optDefaults.useProjectConfig
deriving Repr, DecidableEq, Inhabited

/-- the options a running stack consults (the stack limit is spent as the depth argument of `exec`) -/
structure Flags where
  comments : Bool
  flipper : Bool
  suppress : Bool
deriving Repr, DecidableEq, Inhabited

def Opts.flags (o : Opts) : Flags := ⟨o.comments, o.flipper, o.suppress⟩

/-- the file system: normalised absolute paths to text -/
abbrev FS := List (Path × Str)

def FS.read : FS → Path → Option Str
  | [], _ => none
  | (k, v) :: rest, p => if k == p then some v else FS.read rest p

structure St where
  env : VEnv := {}
  warns : List Warn := []
  prints : List Print := []
deriving Repr, Inhabited

/-- everything a stack knows about where it is -/
structure Ctx where
  opts : Flags
  fs : FS
  frames : List Frame := []     -- the stacks below this one, outermost first, as they stood when this one was created
  file : Option Path := none
deriving Repr, Inhabited

/-- a compile error as the caller of the API sees it: its class, `stack_traceback(-1)` (none when
    the error carries no stack: tab and quotation errors), the prints captured so far (same), and
    for tab/quotation errors the line number the message names -/
structure ErrInfo where
  k : EK
  trace : Option (List Frame) := none
  prints : Option (List Print) := none
  lineNo : Option Nat := none
deriving Repr, DecidableEq

/-- outcome of running something that can fail with a located compile error -/
inductive R (α : Type)
  | ok (a : α)
  | err (e : ErrInfo)
  | crash (e : String)
  | oom (why : String)
deriving Repr

instance : Monad R where
  pure := .ok
  bind x f := match x with
    | .ok a => f a | .err e => .err e | .crash e => .crash e | .oom w => .oom w

/-- a `CompiledReturn` plus the state after it -/
structure Out where
  st : St
  out : List Str := []
  sig : Sig := .normal
deriving Repr, Inhabited

abbrev Res := R Out

/-- running a block in a child stack -/
abbrev ChildFn := List Node → Ctx → St → Res

/-- where the current stack stands: its current line and line_2 -/
structure Pos where
  line : Nat
  line2 : Option Nat := none
deriving Repr, Inhabited

def Ctx.trace (ctx : Ctx) (pos : Pos) : List Frame := ctx.frames ++ [⟨ctx.file, pos.line, pos.line2⟩]

/-- raise a located compile error from the current stack -/
def raise {α : Type} (ctx : Ctx) (pos : Pos) (st : St) (k : EK) : R α :=
  .err { k := k, trace := some (ctx.trace pos), prints := some st.prints }

/-- lift an evaluator outcome, attaching trace and prints -/
def liftO {α : Type} (ctx : Ctx) (pos : Pos) (st : St) : Outcome α → R α
  | .ok a => .ok a
  | .cerr k => raise ctx pos st k
  | .crash e => .crash e
  | .oom w => .oom w

def evalIn (ctx : Ctx) (pos : Pos) (st : St) (s : Str) : R Val :=
  liftO ctx pos st (tokenize st.env.allVars s)

/-- `WarningsObject.append`: no duplicates -/
def addWarn (st : St) (w : Warn) : St :=
  if st.warns.contains w then st else { st with warns := st.warns ++ [w] }

/-- the context of a child stack created from position `pos` -/
def Ctx.child (ctx : Ctx) (pos : Pos) (file : Option Path) : Ctx :=
  { ctx with frames := ctx.trace pos, file := file }

/-- the error `Stack.__init__` raises when the pile is full -/
def overflowErr {α : Type} (ctx : Ctx) (pos : Pos) (st : St) : R α :=
  .err { k := .stackOverflow, trace := some (ctx.trace pos), prints := some st.prints }

/-- `add_stack_above`: the overflow check happens in `Stack.__init__` before anything else the
    command does with the new stack (binding a counter, evaluating a WHILE condition) -/
def guardChild {α : Type} (child : Option ChildFn) (ctx : Ctx) (pos : Pos) (st : St) (k : R α) : R α :=
  match child with
  | none => overflowErr ctx pos st
  | some _ => k

/-- run `code` in the child stack created from `pos` (file `file`, starting state `cst`) -/
def runChild (child : Option ChildFn) (ctx : Ctx) (pos : Pos) (st : St) (code : List Node)
    (file : Option Path) (cst : St) : Res :=
  match child with
  | none => overflowErr ctx pos st
  | some run => run code (ctx.child pos file) cst

/-- state handed back by a finished child: warnings and prints are shared; the environment is
    copied back according to the exit mode -/
def leave (parallel : Bool) (parent : St) (c : St) : St :=
  { env := if parallel then parent.env.exitParallel c.env else parent.env.exitNormal c.env,
    warns := c.warns, prints := c.prints }

def enterSt (st : St) : St := { st with env := st.env.enter }

/-! ### the simple-command pipeline -/

/-- an argument `Line`: content, its own line number, and the line its `original` PreLine has -/
structure Arg where
  content : Val
  lineNum : Nat
  orig : Nat
deriving Repr, Inhabited

def Arg.str (a : Arg) : Str := match a.content with | .str s => s | _ => []

def hasHook (c : ClsDesc) (h : String) : Bool := c.hooks.contains h

def sysVarDefaultDelay : Str := "$DEFAULT_DELAY".toList

/-- `listify_args` (with the `fix:` for nested blocks) -/
def listifyArgs (arg : Option Str) (block : Option (List Node)) (line : Nat) : Option (List Arg) :=
  let first : List Arg := match arg with
    | some a => if a.isEmpty then [] else [⟨.str a, line, line⟩]
    | none => []
  let rec go : List Node → Option (List Arg)
    | [] => some []
    | .line l :: rest => (go rest).map (⟨.str l.content, l.num, l.num⟩ :: ·)
    | .block _ :: _ => none
  match block with
  | none => some first
  | some b => (go b).map (first ++ ·)

/-- `evaluate_args` -/
def evaluateArgs (ctx : Ctx) (line : Nat) (st : St) (stringify : Bool) : List Arg → R (List Arg)
  | [] => .ok []
  | a :: rest => do
    let v ← evalIn ctx ⟨line, some a.orig⟩ st a.str
    let rest' ← evaluateArgs ctx line st stringify rest
    .ok ({ a with content := v } :: rest')

def stringifyArgs (ctx : Ctx) (line : Nat) (st : St) : List Arg → R (List Arg)
  | [] => .ok []
  | a :: rest => do
    let s ← liftO ctx ⟨line, none⟩ st a.content.pyStr
    let rest' ← stringifyArgs ctx line st rest
    .ok ({ a with content := .str s } :: rest')

/-- `__verify_arg`: the `arg_type` check (with the `fix:` rejecting bool for int) -/
def typeOk (t : ArgType) (v : Val) : Bool :=
  match t, v with
  | .doc, _ => true
  | .str, .str _ => true
  | .int, .int _ => true
  | _, _ => false

def isListVal : Val → Bool | .list _ => true | _ => false

/-- `__verify_args` -/
def verifyTypes (ctx : Ctx) (line : Nat) (st : St) (t : ArgType) : List Arg → R Unit
  | [] => .ok ()
  | a :: rest =>
    if !typeOk t a.content || isListVal a.content then raise ctx ⟨line, some a.orig⟩ st .invalidArguments
    else verifyTypes ctx line st t rest

def paramsOf (c : ClsDesc) : List Str := c.params.map String.toList

/-- the `verify_arg` hooks, keyed by class name; `true` = acceptable -/
def verifyArgHook (c : ClsDesc) (a : Arg) : Bool :=
  if !hasHook c "verify_arg" then true else
  match c.cname with
  | "Alt" | "Ctrl" => (paramsOf c).contains (upper a.str) || a.str.length == 1
  | "Shift" => (paramsOf c).contains (upper a.str)
  | "Gui" | "FlipperSysrq" | "FlipperModifierKeys" => a.str.length == 1
  | "Delay" | "DefaultDelay" => match a.content with | .int i => !(i < 0) | _ => true
  | "Whitespace" => match a.content with | .int i => (i > -1 && i < 100) | _ => true
  | "Start" => !(endsWith ['.'] a.str)
  | "Var" => match splitWs1 a.str with | some (_, some _) => true | _ => false
  | "FlipperAltChar" => let s := strip a.str; !s.isEmpty && s.all isDigitC && s.length ≤ 4
  | _ => true

def verifyEach (ctx : Ctx) (line : Nat) (st : St) (c : ClsDesc) : List Arg → R Unit
  | [] => .ok ()
  | a :: rest =>
    if !verifyArgHook c a then raise ctx ⟨line, some a.orig⟩ st .invalidArguments
    else verifyEach ctx line st c rest

/-- the `format_arg` hooks -/
def formatArg (c : ClsDesc) (a : Arg) : Arg :=
  if !hasHook c "format_arg" then a else
  match c.cname with
  | "Alt" => if (paramsOf c).contains (upper a.str) then { a with content := .str (upper a.str) } else a
  | "Ctrl" => a      -- `arg if arg not in parameters else arg.upper()` changes nothing
  | "FlipperAltChar" => { a with content := .str (strip a.str) }     -- the `fix:`: the code that was checked is the code emitted
  | _ => a

/-- `SimpleCommand.run_compile` -/
def defaultEmit (name : Str) (a : Option Arg) : R (List Str) :=
  match a with
  | none => .ok [upper name]
  | some a =>
    match a.content with
    | .str s => .ok [upper name ++ [' '] ++ s]
    | .int i => if Val.hugeInt i then .oom "str() of a huge int" else .ok [upper name ++ [' '] ++ intToStr i]
    | _ => .oom "formatting a non-str, non-int argument"

def breakArg (s : Str) : Str × Option Str :=
  match splitChar1 ' ' s with
  | (a, none) => (a, none)
  | (a, some r) => (a, some (strip r))

/-- `Start.convert_to_path` up to the file-system lookup -/
def climb : Str → Path → Option (Str × Path)
  | '.' :: rest, dir => if dir.isEmpty then none else climb rest dir.dropLast
  | rel, dir => some (rel, dir)

def hasDoubleDot : Str → Bool
  | '.' :: '.' :: _ => true
  | _ :: rest => hasDoubleDot rest
  | [] => false

def pathCharOk (c : Char) : Bool := c.isAlphanum || c == '_' || c == '-' || c == '.'

def parentDir (file : Path) : Path := file.dropLast

def resolveImport (file : Path) (arg : Str) : Except EK Path :=
  match climb arg (parentDir file) with
  | none => .error .unexpectedToken
  | some (rel, dir) =>
    if hasDoubleDot rel then .error .unexpectedToken
    else
      let comps := (splitChar '.' rel).map String.ofList
      match comps.reverse with
      | [] => .error .invalidArguments
      | last :: initRev => .ok (dir ++ initRev.reverse ++ [last ++ Generated.scriptExtension])

/-- `str.splitlines()` on the model's alphabet (LF only; no trailing empty line) -/
def splitLines (s : Str) : List Str :=
  let parts := splitChar '\n' s
  match parts.reverse with
  | [] :: r => r.reverse
  | _ => parts

def startBaseWarn (st : St) (sig : Sig) : St :=
  if sig == .normal || sig == .ret then st else addWarn st ⟨.exitedUsing sig, none⟩

/-- what one `run_compile` call hands back: `sig = none` for a `None` or list result (the
    accumulated signal is left alone), `some s` for a str (normal) or a `CompiledReturn` -/
structure RC where
  st : St
  out : List Str := []
  sig : Option Sig := none
deriving Repr, Inhabited

/-- the argument values of a RUN: none, one value, or the elements of a comma list -/
def runArgs (ctx : Ctx) (pos : Pos) (st : St) : Option Str → R (List Val)
  | none => .ok []
  | some vs =>
    if (strip vs).isEmpty then .ok [] else
    evalIn ctx pos st vs >>= fun v =>
    match v with
    | .list l => .ok l
    | v => .ok [v]

/-- the state a function body starts in: a child of the caller's state with the arguments bound to
    the parameters in order -/
def bindParams (st : St) (fn : Func) (vals : List Val) : St :=
  let cst := enterSt st
  { cst with env := { cst.env with
      user := (fn.params.zip vals).foldl (fun u pv => assocSet u pv.1 pv.2) cst.env.user } }

/-- what `Run.run_compile` works out before it creates the stack: the function and the state its
    body starts in -/
def runPre (ctx : Ctx) (pos : Pos) (a : Arg) (st : St) : R (Func × St) :=
  runArgs ctx pos st (breakArg a.str).2 >>= fun vals =>
  match assocGet st.env.funcs (breakArg a.str).1 with
  | none => raise ctx pos st .varIsNonExistent
  | some fn =>
    if fn.params.length != vals.length then raise ctx pos st .invalidArguments
    else if vals.any isListVal then .oom "a list bound to a parameter (aliasing is not modelled)"
    else .ok (fn, bindParams st fn vals)

/-- the file a function body runs in -/
def funcFile (ctx : Ctx) (fn : Func) : Option Path :=
  match fn.file with | some f => some f | none => ctx.file

/-- what RUN does with the finished body -/
def runPost (ctx : Ctx) (pos : Pos) (st : St) (r : Out) : R RC :=
  let st' := leave false st r.st
  if r.sig == .brk || r.sig == .cont then raise ctx pos st' .stackReturnType
  else .ok { st := st', out := r.out, sig := some .normal }

/-- `Run.run_compile` -/
def runRun (child : Option ChildFn) (ctx : Ctx) (pos : Pos) (a : Arg) (st : St) : R RC :=
  runPre ctx pos a st >>= fun p =>
  runChild child ctx pos st p.1.code (funcFile ctx p.1) p.2 >>= runPost ctx pos st

/-- the file a START-family command names, read and parsed -/
def loadImport (ctx : Ctx) (pos : Pos) (a : Arg) (st : St) : R (Path × List Node) :=
  match ctx.file with
  | none => .crash "TypeError"
  | some file =>
    if !a.str.all pathCharOk then .oom "import path outside the modelled alphabet" else
    match resolveImport file a.str with
    | .error k => raise ctx pos st k
    | .ok target =>
      match ctx.fs.read target with
      | none => raise ctx pos st .invalidArguments
      | some text =>
        if (ctx.frames.map (·.file) ++ [ctx.file]).contains (some target) then raise ctx pos st .circularStructure
        else
          match parseLines (splitLines text) with
          | .error (.tab n) => .err { k := .invalidTab, lineNo := some n }
          | .error (.quote n) => .err { k := .unclosedQuotations, lineNo := some n }
          | .ok nodes => .ok (target, nodes)

/-- what START / STARTCODE / STARTENV do with the finished file -/
def startPost (name : Str) (st : St) (r : Out) : R RC :=
  let cst := startBaseWarn r.st r.sig
  let st' := leave (upper name != "STARTCODE".toList) st cst
  if upper name == "STARTENV".toList then .ok { st := st' }
  else .ok { st := st', out := r.out }

/-- `Start.run_compile` -/
def runStart (child : Option ChildFn) (ctx : Ctx) (pos : Pos) (name : Str) (a : Arg) (st : St) : R RC :=
  loadImport ctx pos a st >>= fun p =>
  runChild child ctx pos st p.2 (some p.1) (enterSt st) >>= startPost name st

/-- `run_compile` of every simple class that creates no stack, for one (optional) argument.
    `pos.line2` is already set by `__multi_comp`. -/
def runCompileLocal (ctx : Ctx) (c : ClsDesc) (name : Str) (line : Nat)
    (a : Option Arg) (st : St) : R RC :=
  let pos : Pos := ⟨line, some (match a with | some a => a.orig | none => line)⟩
  let dflt : R RC := do let ls ← defaultEmit name a; .ok { st := st, out := ls, sig := some .normal }
  if !hasHook c "run_compile" then dflt else
  match c.cname with
  | "BreakLoop" => .ok { st := st, sig := some .brk }
  | "ContinueLoop" => .ok { st := st, sig := some .cont }
  | "Return" => .ok { st := st, sig := some .ret }
  | "Pass" => .ok { st := st }
  | "Rem" => if ctx.opts.comments then dflt else .ok { st := st }
  | "Print" =>
    match a with
    | none => .ok { st := st }
    | some a => .ok { st := { st with prints := st.prints ++ [⟨a.str, a.lineNum, ctx.file⟩] }, sig := some .normal }
  | "Enter" =>
    match a with
    | none => dflt
    | some a => match a.content with
      | .int n => if n > 100000 then .oom "huge count" else .ok { st := st, out := List.replicate n.toNat "ENTER".toList }
      | _ => .crash "TypeError"
  | "Whitespace" =>
    match a with
    | none => .ok { st := st, out := [[]], sig := some .normal }
    | some a => match a.content with
      | .int n => .ok { st := st, out := List.replicate n.toNat [] }
      | _ => .crash "TypeError"
  | "DefaultDelay" =>
    match a with
    | none => .crash "AttributeError"
    | some a =>
      if !assocHas st.env.sys sysVarDefaultDelay then raise ctx pos st .varIsNonExistent
      else do
        let ls ← defaultEmit name (some a)
        .ok { st := { st with env := { st.env with sys := assocSet st.env.sys sysVarDefaultDelay a.content } }, out := ls,
              sig := some .normal }
  | "Exist" =>
    match a with
    | none => .crash "AttributeError"
    | some a => if assocHas st.env.allVars a.str then .ok { st := st } else raise ctx pos st .general
  | "NotExist" =>
    match a with
    | none => .crash "AttributeError"
    | some a => if !assocHas st.env.allVars a.str then .ok { st := st } else raise ctx pos st .general
  | "Var" =>
    match a with
    | none => .crash "AttributeError"
    | some a =>
      match splitWs1 a.str with
      | some (nm, some value) => do
        let v ← evalIn ctx pos st value
        if !isVar nm false then raise ctx pos st .unacceptableVarName
        else if isListVal v then .oom "a list stored in a variable (aliasing is not modelled)"
        else .ok { st := { st with env := { st.env with user := assocSet st.env.user nm v } } }
      | _ => .crash "ValueError"
  | _ => dflt

/-- the position `__multi_comp` sets before calling `run_compile` -/
def argPos (line : Nat) (a : Option Arg) : Pos := ⟨line, some (match a with | some a => a.orig | none => line)⟩

/-- `run_compile` of every simple class for one (optional) argument -/
def runCompile (child : Option ChildFn) (ctx : Ctx) (c : ClsDesc) (name : Str) (line : Nat)
    (a : Option Arg) (st : St) : R RC :=
  if hasHook c "run_compile" && c.cname == "Run" then
    match a with
    | none => .crash "AttributeError"
    | some a => runRun child ctx (argPos line (some a)) a st
  else if hasHook c "run_compile" && c.cname == "Start" then
    match a with
    | none => .crash "TypeError"
    | some a => runStart child ctx (argPos line (some a)) name a st
  else runCompileLocal ctx c name line a st

/-- `__multi_comp`: run `run_compile` for every argument (or once with none), accumulating -/
def multiComp (child : Option ChildFn) (ctx : Ctx) (c : ClsDesc) (name : Str) (line : Nat) :
    List (Option Arg) → St → List Str → Sig → Res
  | [], st, out, sig => .ok { st := st, out := out, sig := sig }
  | a :: rest, st, out, sig => do
    let r ← runCompile child ctx c name line a st
    let sig' := r.sig.getD sig
    multiComp child ctx c name line rest r.st (out ++ r.out) sig'

/-- the `verify_args` hooks, keyed by class name -/
def verifyArgsHook (ctx : Ctx) (pos0 : Pos) (c : ClsDesc) (args : List Arg) (st : St) : R St :=
  if hasHook c "verify_args" then
    match c.cname with
    | "DefaultDelay" =>
      if args.length > 1 then .ok (addWarn st ⟨.defaultDelayMulti, some (ctx.trace pos0)⟩) else .ok st
    | "Return" => if args.length > 1 then raise ctx pos0 st .invalidArguments else .ok st
    | _ => .ok st
  else .ok st

/-- `listify_args`, strip, and — for evaluated commands — `evaluate_args` (then `str()` unless the
    class wants integers) -/
def prepareArgs (ctx : Ctx) (c : ClsDesc) (word : Str) (line : Nat)
    (arg : Option Str) (block : Option (List Node)) (st : St) : R (List Arg) :=
  match listifyArgs arg block line with
  | none => raise ctx ⟨line, none⟩ st .invalidArguments
  | some args =>
    let args := if c.strip then args.map (fun a => { a with content := .str (strip a.str) }) else args
    if c.tokenize || startsWith ['$'] (upper word) then
      evaluateArgs ctx line st true args >>= fun ev =>
      if c.argType == .int then .ok ev else stringifyArgs ctx line st ev
    else .ok args

/-- `__verify_all_args`: argument count, `arg_type`, the `verify_args` hook, the `verify_arg` hook of
    every argument.  Yields the state (a warning may have been added). -/
def checkArgs (ctx : Ctx) (c : ClsDesc) (line : Nat) (args : List Arg) (st : St) : R St :=
  let pos0 : Pos := ⟨line, none⟩
  if !args.isEmpty && c.argReq == .notAllowed then raise ctx pos0 st .invalidArguments
  else if args.isEmpty && c.argReq == .required then raise ctx pos0 st .invalidArguments
  else
    verifyTypes ctx line st c.argType args >>= fun _ =>
    verifyArgsHook ctx pos0 c args st >>= fun st' =>
    verifyEach ctx line st' c args >>= fun _ =>
    .ok st'

/-- the items `__multi_comp` runs: the formatted arguments, or a single `None` -/
def itemsOf (c : ClsDesc) (args : List Arg) : List (Option Arg) :=
  if args.isEmpty then [none] else args.map (fun a => some (formatArg c a))

/-- the command name as emitted: without a leading `$` -/
def nameOf (word : Str) : Str := if startsWith ['$'] (upper word) then word.drop 1 else word

/-- everything `SimpleCommand.compile` does before `__multi_comp`: flipper check, `$` prefix,
    listify, strip, evaluate, the argument-count, type and hook checks, `format_arg`.
    Yields the command name without `$`, the items to run and the state (warnings may be added). -/
def simplePre (ctx : Ctx) (c : ClsDesc) (word : Str) (line : Nat)
    (arg : Option Str) (block : Option (List Node)) (st : St) : R (Str × List (Option Arg) × St) :=
  let pos0 : Pos := ⟨line, none⟩
  if c.flipperOnly && !ctx.opts.flipper then raise ctx pos0 st .invalidCommand else
  if c.cname == "Start" && ctx.file.isNone then raise ctx pos0 st .notAValidCommand else
  prepareArgs ctx c word line arg block st >>= fun args =>
  checkArgs ctx c line args st >>= fun st' =>
  .ok (nameOf word, itemsOf c args, st')

/-- `SimpleCommand.compile` -/
def compileSimple (child : Option ChildFn) (ctx : Ctx) (c : ClsDesc) (word : Str) (line : Nat)
    (arg : Option Str) (block : Option (List Node)) (st : St) : Res :=
  simplePre ctx c word line arg block st >>= fun p =>
  multiComp child ctx c p.1 line p.2.1 p.2.2 [] .normal

/-! ### block commands -/

/-- `Repeat.parse_argument` / `While.parse_argument` -/
def parseLoopArg (s : Str) : Option Str × Str :=
  match splitChar1 ',' s with
  | (a, none) => (none, a)
  | (a, some r) => (some a, r)

def repeatLimit : Nat := Generated.repeatLimit
def whileLimit : Nat := Generated.whileLimit

/-- `Repeat.tokenize_count` -/
def tokenizeCount (ctx : Ctx) (pos : Pos) (st : St) (s : Str) : R Nat := do
  let v ← evalIn ctx pos st s
  let n : Option Int := match v with
    | .int i => some i
    | .bool b => some (if b then 1 else 0)
    | _ => none
  match n with
  | none => raise ctx pos st .invalidArguments
  | some i => if i < 0 || i > repeatLimit then raise ctx pos st .invalidArguments else .ok i.toNat

/-- one loop iteration's bookkeeping shared by REPEAT and WHILE:
    `none` = the loop goes on; `some sig` = it stops with that signal -/
def shouldBreak : Sig → Option Sig
  | .cont => none
  | .brk => some .normal
  | .normal => none
  | .ret => some .ret

/-- bind a loop counter in the child environment (`new_var`) -/
def bindCounter (ctx : Ctx) (pos : Pos) (st : St) (var : Option Str) (count : Nat) (cst : St) : R St :=
  match var with
  | none => .ok cst
  | some v =>
    if !isVar v false then raise ctx pos st .unacceptableVarName
    else .ok { cst with env := { cst.env with user := assocSet cst.env.user v (.int count) } }

/-- what a finished iteration means for the loop: go on (`none`) or stop with a result -/
def afterIter (st : St) (out : List Str) (r : Out) : St × List Str × Option Sig :=
  (leave false st r.st, out ++ r.out, shouldBreak r.sig)

/-- the `while count < self.tokenize_count(argument)` loop; `budget` bounds the iterations that
    can still happen (`count < n ≤ repeatLimit`) -/
def repeatLoop (child : Option ChildFn) (ctx : Ctx) (pos : Pos) (var : Option Str) (countExpr : Str)
    (body : List Node) : Nat → Nat → St → List Str → Res
  | 0, _, st, out => .ok { st := st, out := out }       -- unreachable: count < n ≤ limit
  | budget + 1, count, st, out =>
    tokenizeCount ctx pos st countExpr >>= fun n =>
    if !(count < n) then .ok { st := st, out := out, sig := .normal }
    else
      guardChild child ctx pos st <|
      bindCounter ctx pos st var count (enterSt st) >>= fun cst =>
      runChild child ctx pos st body ctx.file cst >>= fun r =>
      match afterIter st out r with
      | (st', out', some s) => .ok { st := st', out := out', sig := s }
      | (st', out', none) => repeatLoop child ctx pos var countExpr body budget (count + 1) st' out'

/-- the `while True` loop of WHILE; `budget` = iterations that may still start -/
def whileLoop (child : Option ChildFn) (ctx : Ctx) (pos : Pos) (var : Option Str) (cond : Str)
    (body : List Node) : Nat → Nat → St → List Str → Res
  | 0, _, st, _ => raise ctx pos st .exceededLimit
  | budget + 1, count, st, out =>
    guardChild child ctx pos st <|
    bindCounter ctx pos st var count (enterSt st) >>= fun cst =>
    evalIn ctx pos cst cond >>= fun cv =>
    if !cv.truthy then .ok { st := leave false st cst, out := out, sig := .normal }
    else
      runChild child ctx pos st body ctx.file cst >>= fun r =>
      match afterIter st out r with
      | (st', out', some s) => .ok { st := st', out := out', sig := s }
      | (st', out', none) => whileLoop child ctx pos var cond body budget (count + 1) st' out'

def ifSuccess : Str := Generated.ifSuccess.toList

/-- what a block command decides before it creates any stack -/
inductive BlockAct
  | done (o : Out)                                             -- nothing (more) to run
  | body (st : St)                                             -- IF/ELIF/ELSE: run the block once from `st`
  | repeat (var : Option Str) (count : Str) (st : St)          -- REPEAT/FOR with a block
  | while (var : Option Str) (cond : Str) (st : St)            -- WHILE

def rawLines : List Node → Option (List Str)
  | [] => some []
  | .line l :: rest => (rawLines rest).map (l.content :: ·)
  | .block _ :: _ => none

def setIfFlag (st : St) (b : Bool) : St :=
  { st with env := { st.env with temp := assocSet st.env.temp ifSuccess (.bool b) } }

def ifFlag (st : St) : Bool :=
  match assocGet st.env.temp ifSuccess with | some v => v.truthy | none => false

/-- the state `mk_temp_var` leaves: the chain flag exists -/
def withFlag (st : St) : St := if assocHas st.env.temp ifSuccess then st else setIfFlag st false

/-- the truth of the condition of IF / ELIF (ELSE counts as true) -/
def ifCond (ctx : Ctx) (pos : Pos) (name : Str) (arg : Option Str) (st : St) : R Bool :=
  if name != "ELSE".toList then evalIn ctx pos st (arg.getD []) >>= fun v => .ok v.truthy
  else .ok true

/-- what the arm does once its condition is known: IF resets the chain flag; an arm is skipped when the flag is
    set or its condition is false; otherwise it sets the flag and runs its body -/
def ifDecide (name : Str) (st : St) (cond : Bool) : BlockAct :=
  let flag := ifFlag st
  let st := if name == "IF".toList then setIfFlag st false else st
  let skip := if name == "IF".toList then false else flag
  if skip then .done { st := st }
  else if !cond then .done { st := st }
  else .body (setIfFlag st true)

/-- `If.run_compile` up to the decision whether the body runs -/
def ifPre (ctx : Ctx) (pos : Pos) (word : Str) (arg : Option Str) (st : St) : R BlockAct :=
  let name := upper word
  let st := withFlag st
  if arg.isNone && name != "ELSE".toList then raise ctx pos st .invalidArguments
  else if arg.isSome && name == "ELSE".toList then raise ctx pos st .invalidArguments
  else ifCond ctx pos name arg st >>= fun cond => .ok (ifDecide name st cond)

/-- `Func.run_compile` -/
def funcPre (ctx : Ctx) (pos : Pos) (arg : Option Str) (block : List Node) (st : St) : R BlockAct :=
  let (fname, varStr) := breakArg (arg.getD [])
  let params : List Str := match varStr with
    | none => []
    | some vs => if vs.isEmpty then [] else (splitChar ',' vs).map strip
  if !isVar fname false then raise ctx pos st .unacceptableVarName
  else if !params.all (fun p => isVar p false) then raise ctx pos st .unacceptableVarName
  else .ok (.done { st := { st with env := { st.env with funcs := assocSet st.env.funcs fname ⟨params, block, ctx.file⟩ } } })

/-- `Ignore.run_compile` -/
def ignorePre (ctx : Ctx) (pos : Pos) (block : List Node) (st : St) : R BlockAct :=
  match rawLines block with
  | none => raise ctx pos st .general
  | some ls => .ok (.done { st := st, out := ls })

/-- `Repeat.run_compile` before the loop -/
def repeatPre (ctx : Ctx) (pos : Pos) (arg : Option Str) (hasBlock : Bool) (st : St) : R BlockAct :=
  let (var, countExpr) := parseLoopArg (arg.getD [])
  if !hasBlock then
    if var.isSome then raise ctx pos st .invalidArguments
    else .ok (.done { st := st, out := ["REPEAT ".toList ++ countExpr] })
  else
    match var with
    | some v => if !isVar v false then raise ctx pos st .unacceptableVarName
                else .ok (.repeat var countExpr st)
    | none => .ok (.repeat var countExpr st)

/-- `BlockCommand.compile` and the part of `run_compile` of each block class that runs in the
    current stack -/
def blockPre (ctx : Ctx) (c : ClsDesc) (word : Str) (line : Nat)
    (arg : Option Str) (block : List Node) (hasBlock : Bool) (st : St) : R BlockAct :=
  let pos : Pos := ⟨line, none⟩
  let argPresent := match arg with | some a => !a.isEmpty | none => false
  let arg' := if c.strip then arg.map strip else arg
  if c.flipperOnly && !ctx.opts.flipper then raise ctx pos st .invalidCommand
  else if argPresent && c.argReq == .notAllowed then raise ctx pos st .invalidArguments
  else if !argPresent && c.argReq == .required then raise ctx pos st .invalidArguments
  else
    match c.cname with
    | "If" => ifPre ctx pos word arg' st
    | "Func" => funcPre ctx pos arg' block st
    | "Ignore" => ignorePre ctx pos block st
    | "Repeat" => repeatPre ctx pos arg' hasBlock st
    | "While" => .ok (.while (parseLoopArg (arg'.getD [])).1 (parseLoopArg (arg'.getD [])).2 st)
    | _ => .oom ("block command class not modelled: " ++ c.cname)

/-- the part of a block command that creates stacks -/
def runBlockAct (child : Option ChildFn) (ctx : Ctx) (pos : Pos) (block : List Node) : BlockAct → Res
  | .done o => .ok o
  | .body st =>
    runChild child ctx pos st block ctx.file (enterSt st) >>= fun r =>
    .ok { st := leave false st r.st, out := r.out, sig := r.sig }
  | .repeat var countExpr st => repeatLoop child ctx pos var countExpr block (repeatLimit + 1) 0 st []
  | .while var cond st => whileLoop child ctx pos var cond block (whileLimit + 1) 0 st []

/-- a block command -/
def compileBlock (child : Option ChildFn) (ctx : Ctx) (c : ClsDesc) (word : Str) (line : Nat)
    (arg : Option Str) (block : List Node) (hasBlock : Bool) (st : St) : Res :=
  blockPre ctx c word line arg block hasBlock st >>= runBlockAct child ctx ⟨line, none⟩ block

/-! ### dispatch and the statement loop -/

/-- `isThisCommand` of a palette class -/
def isThisCommand (c : ClsDesc) (word : Str) (hasBlock : Bool) : Bool :=
  let up := String.ofList (upper word)
  if c.isBlock then
    if (startsWith ['$'] word && c.names.contains (String.ofList ((upper word).drop 1))) ||
       (c.blockRequired && !hasBlock) then false
    else c.names.contains up
  else
    let up' := if startsWith ['$'] (upper word) then String.ofList ((upper word).drop 1) else up
    c.names.contains up'

def dispatch (word : Str) (hasBlock : Bool) : Option ClsDesc :=
  Generated.palette.find? (fun c => isThisCommand c word hasBlock)

/-- a non-empty list follows the command line -/
def hasBlockOf : Option (List Node) → Bool
  | some b => !b.isEmpty
  | none => false

/-- one command line of `Stack.run` -/
def stepCmd (child : Option ChildFn) (ctx : Ctx) (l : PreLine) (block : Option (List Node)) (st : St) : Res :=
  match splitWs1 l.content with
  | none => .crash "IndexError"
  | some (word, arg) =>
    let hasBlock := hasBlockOf block
    match dispatch word hasBlock with
    | some c =>
      if c.isBlock then compileBlock child ctx c word l.num arg (block.getD []) hasBlock st
      else compileSimple child ctx c word l.num arg block st
    | none =>
      let st := if ctx.opts.suppress then st
                else addWarn st ⟨.notExist l.num, some (ctx.trace ⟨l.num, none⟩)⟩
      compileSimple child ctx Generated.generic word l.num arg block st

/-- the code block of a command: the list element that follows its line, if that is a list -/
def nextBlock : List Node → Option (List Node)
  | .block b :: _ => some b
  | _ => none

/-- `Stack.run` -/
def runNodes (child : Option ChildFn) (ctx : Ctx) : List Node → St → List Str → Res
  | [], st, out => .ok { st := st, out := out, sig := .normal }
  | .block _ :: rest, st, out => runNodes child ctx rest st out
  | .line l :: rest, st, out =>
    stepCmd child ctx l (nextBlock rest) st >>= fun r =>
    if r.sig == .normal then runNodes child ctx rest r.st (out ++ r.out)
    else .ok { st := r.st, out := out ++ r.out, sig := r.sig }

/-- `d` = how many more stacks may be created above this one (`stack_limit − len(pile)`) -/
def exec : Nat → ChildFn
  | 0 => fun nodes ctx st => runNodes none ctx nodes st []
  | d + 1 => fun nodes ctx st => runNodes (some (exec d)) ctx nodes st []

end Duckling
