import Duckling.Model.Value
import Duckling.Generated.Tables
/-
  Lexer — `tokenizer.py` `__convert_string` / `__verify_char` / `__resolve_token_return`,
  `SolveData`, and `addCharToToken` of the token classes (DESIGN.md Appendix A), after the `fix:`
  commits (closed check in `append_and_switch`; keyword tokens raise ExpectedTokenError;
  `-ddd` is an int).
-/
namespace Duckling

/-- the six `isToken` outcomes -/
inductive IsTok | F | T | Cont | FSkip | Reset | TCont
deriving Repr, DecidableEq

/-- token classes, value classes then operator classes -/
inductive Cls | str | num | bool | var | grp | math | cond | comma
deriving Repr, DecidableEq

/-- state of a keyword token (`parse_for_keywords`) -/
structure KwSt where
  kws : List Str
  expected : Option (List Nat) := none
  cur : Str := []
deriving Repr

inductive TokSt
  | str (inStr closed : Bool)
  | num (isFp : Bool) (index : Int) (isNeg closed : Bool)
  | kw (c : Cls) (k : KwSt)
  | grp (depth : Nat) (ignoreParen closed isOpp : Bool)
deriving Repr

def TokSt.cls : TokSt → Cls
  | .str .. => .str | .num .. => .num | .kw c _ => c | .grp .. => .grp

def TokSt.closed : TokSt → Bool
  | .str _ c => c | .num _ _ _ c => c | .kw .. => true | .grp _ _ c _ => c

/-- the `!` flag of a group token -/
def TokSt.opp : TokSt → Bool
  | .grp _ _ _ o => o | _ => false

/-- the keyword list of a keyword token -/
def TokSt.kws : TokSt → List Str
  | .kw _ k => k.kws | _ => []

def kwAdd (k : KwSt) (ch : Char) : KwSt × IsTok :=
  let cur := k.cur ++ [ch]
  let listable := match k.expected with | some e => e | none => List.range k.kws.length
  let newExp := listable.filter fun i => startsWith cur (k.kws.getD i [])
  let k1 := { k with cur := cur }
  if newExp.isEmpty then
    match k.expected with
    | some e => if e.any (fun i => k.kws.getD i [] == cur.dropLast) then (k1, .F) else (k1, .Reset)
    | none => (k1, .Reset)
  else
    let k2 := { k1 with expected := some newExp }
    if newExp.length > 1 then (k2, .T)
    else if k.kws.getD (newExp.headD 0) [] == cur then (k2, .Cont) else (k2, .T)

def parenLimit : Nat := Generated.parenLimit

/-- `addCharToToken` of every class; the group token can raise compile errors -/
def addChar (t : TokSt) (ch : Char) : Outcome (TokSt × IsTok) :=
  match t with
  | .str inStr closed =>
    if ch != '"' && inStr then .ok (t, .T)
    else if inStr then .ok (.str false true, .FSkip)
    else if ch == '"' then .ok (.str true closed, .TCont)
    else .ok (t, .F)
  | .num isFp index isNeg closed =>
    let index := index + 1
    if isDigitC ch then .ok (.num isFp index isNeg true, .T)
    else if index == 0 && ch == '-' then .ok (.num isFp index true false, .T)
    else if ch == '.' && !isFp then .ok (.num true index isNeg (if index == 0 then false else closed), .T)
    else if isNeg && index == 1 then .ok (.num isFp index isNeg closed, .Reset)
    else .ok (.num isFp index isNeg closed, .F)
  | .kw c k =>
    if k.kws.isEmpty then .ok (t, .F)          -- `if self.keywords:` is false: plain Token.addCharToToken
    else let (k', r) := kwAdd k ch; .ok (.kw c k', r)
  | .grp depth ign closed opp =>
    let isParen := ch == '(' || ch == ')'
    if (!isParen || ign) && depth != 0 then
      .ok (.grp depth (if ch == '"' then !ign else ign) closed opp, .T)
    else
      if ch == ')' && depth == 0 then .cerr .unexpectedToken
      else
        let depth' := if isParen then (if ch == '(' then depth + 1 else depth - 1) else depth
        if depth' > parenLimit then .cerr .stackOverflow
        else if depth' > 0 then .ok (.grp depth' ign closed opp, .T)
        else if !isParen then
          if ch == '!' then .ok (.grp depth' ign closed true, .TCont)
          else .ok (.grp depth' ign closed opp, .Reset)
        else .ok (.grp depth' ign true opp, .Cont)

/-- a finished token: its class, the accumulated text, and the `!` flag of a group -/
structure Tok where
  cls : Cls
  text : Str
  opp : Bool := false
deriving Repr

/-- `SolveData` -/
structure LS where
  idx : Nat := 0
  start : Nat := 0
  tok : Option TokSt := none
  isOp : Bool := false
  str : Str := []
  out : List Tok := []     -- parse_list, reversed
  black : List Cls := []
deriving Repr

def opsOf (cname : String) : List Str :=
  match Generated.opClasses.find? (·.cname == cname) with
  | some c => c.operators.map String.toList
  | none => []

def mathOps : List Str := opsOf "MathOperator"
def condOps : List Str := opsOf "ConditionalOperator"
def commaOps : List Str := opsOf "CommaOperator"

def boolKws : List Str := ["TRUE".toList, "FALSE".toList]

def fresh (vars : List Str) : Cls → TokSt
  | .str => .str false false
  | .num => .num false (-1) false true
  | .bool => .kw .bool { kws := boolKws }
  | .var => .kw .var { kws := vars }
  | .grp => .grp 0 false false false
  | .math => .kw .math { kws := mathOps }
  | .cond => .kw .cond { kws := condOps }
  | .comma => .kw .comma { kws := commaOps }

/-- the part of `set_value` that can raise -/
def setValueCheck (c : Cls) (kws : List Str) (v : Str) : Outcome Unit :=
  match c with
  | .bool => if v == "TRUE".toList || v == "FALSE".toList then .ok () else .cerr .expectedToken
  | .var => if kws.contains v then .ok () else .cerr .expectedToken
  | _ => .ok ()

/-- `SolveData.append_and_switch` -/
def appendSwitch (s : LS) : Outcome LS :=
  match s.tok with
  | none => .crash "TypeError"
  | some t =>
    if !t.closed then .cerr .expectedToken
    else
      match setValueCheck t.cls t.kws s.str with
      | .ok () => .ok { s with out := ⟨t.cls, s.str, t.opp⟩ :: s.out, start := s.idx, tok := none,
                               isOp := !s.isOp, black := [], str := [] }
      | .cerr k => .cerr k
      | .crash e => .crash e
      | .oom w => .oom w

def resetS (s : LS) : LS := { s with idx := s.start, str := [], tok := none }

/-- `__resolve_token_return`; returns the new state and `breakable` -/
def resolve (s : LS) (r : IsTok) (ch : Char) (falseIsSwitch : Bool) : Outcome (LS × Bool) :=
  match r with
  | .F => if falseIsSwitch then do let s' ← appendSwitch s; .ok (s', false) else .ok (s, false)
  | .T => .ok ({ s with str := s.str ++ [ch], idx := s.idx + 1 }, true)
  | .Cont => do let s' ← appendSwitch { s with str := s.str ++ [ch], idx := s.idx + 1 }; .ok (s', true)
  | .Reset =>
    let s' := match s.tok with | some t => { s with black := t.cls :: s.black } | none => s
    .ok (resetS s', false)
  | .TCont => .ok ({ s with idx := s.idx + 1 }, true)
  | .FSkip => do let s' ← appendSwitch { s with idx := s.idx + 1 }; .ok (s', false)

/-- `__verify_char` -/
def verifyChar (vars : List Str) (s : LS) (ch : Char) : List Cls → Outcome LS
  | [] => .cerr .expectedToken
  | c :: cs =>
    if s.black.contains c then verifyChar vars s ch cs
    else do
      let t := fresh vars c
      let (t', r) ← addChar t ch
      let (s', brk) ← resolve { s with tok := some t' } r ch false
      if brk then .ok s' else verifyChar vars s' ch cs

def valueClasses : List Cls := [.str, .num, .bool, .var, .grp]
def operatorClasses : List Cls := [.math, .cond, .comma]

/-- one iteration of the `while obj.index < len(to_parse)` loop -/
def lexStep (vars : List Str) (ch : Char) (s : LS) : Outcome LS :=
  match s.tok with
  | none =>
    if isSpace ch then .ok { s with idx := s.idx + 1, start := s.start + 1 }
    else verifyChar vars s ch (if s.isOp then operatorClasses else valueClasses)
  | some t => do
    let (t', r) ← addChar t ch
    let (s', _) ← resolve { s with tok := some t' } r ch true
    .ok s'

def lexLoop (vars : List Str) (inp : Array Char) : Nat → LS → Outcome LS
  | 0, _ => .oom "lexer fuel"
  | f + 1, s =>
    if h : s.idx < inp.size then
      match lexStep vars inp[s.idx] s with
      | .ok s' => lexLoop vars inp f s'
      | .cerr k => .cerr k
      | .crash e => .crash e
      | .oom w => .oom w
    else .ok s

/-- every character is rescanned at most once per class of its token start; generous fuel -/
def lexFuel (n : Nat) : Nat := (n + 1) * 12 + 10

/-- the token still open at the end of the text is finished (`not closed → not_closed()` is the closed check inside) -/
def lexFinish (s : LS) : Outcome LS :=
  match s.tok with
  | some _ => appendSwitch s
  | none => .ok s

/-- a complete expression alternates values and operators and ends on a value -/
def lexResult (s : LS) : Outcome (List Tok) :=
  if s.out.length % 2 == 0 then .cerr .expectedToken else .ok s.out.reverse

/-- `__convert_string` -/
def lex (vars : List Str) (inp : Str) : Outcome (List Tok) :=
  lexLoop vars inp.toArray (lexFuel inp.length) {} >>= lexFinish >>= lexResult

end Duckling
