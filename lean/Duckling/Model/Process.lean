import Duckling.Model.Compile
import Duckling.Generated.Effects
/-
  Process — the process-level mutable state a compilation could read or write (class attributes of the
  command classes, the token/operator tables, module-level objects, the CLI's cached configuration).

  The functional model `compile` has no hidden state, so independence of compilations is true of it by
  construction; what has to be shown is that the *source* gives it none.  The translator re-extracts, on every
  run, the syntactic inventory of writes to process-level state (`Generated.Effects.sharedWrites`); `compileP`
  applies every write of that inventory that is not on the reviewed benign list to an abstract cell store.
-/
namespace Duckling

/-- reviewed: per-instance dataclass fields (`field(default_factory=list)`) flagged because they are annotated
    at class level, and the CLI's configuration cache (same meaning before and after; C19) -/
def benignWrites : List String := [
  "ducklingscript.cli.utils.config:Configuration.load#assign#cls.__load_attempted",
  "ducklingscript.cli.utils.config:Configuration.load#assign#cls._config",
  "ducklingscript.cli.utils.config:Configuration.save#assign#cls._config",
  "ducklingscript.compiler.stack_return:CompiledReturn.add_to_std#mutate-via-self:append#self.std_out",
  "ducklingscript.compiler.stack_return:CompiledReturn.append#mutate-via-self:extend#self.data",
  "ducklingscript.compiler.stack_return:CompiledReturn.append#mutate-via-self:extend#self.std_out",
  "ducklingscript.compiler.tokenization.tokenizer:SolveData.add_blacklist#mutate-via-self:append#self.blacklist",
  "ducklingscript.compiler.tokenization.tokenizer:SolveData.append_and_switch#mutate-via-self:append#self.parse_list"
]

/-- the writes to process-level state a compilation performs, per the regenerated inventory -/
def compileWrites : List String := Generated.Effects.sharedWrites.filter (fun w => !benignWrites.contains w)

/-- abstract store: how often each process-level cell was written -/
abbrev ProcState := List (String × Nat)

def applyWrite (σ : ProcState) (w : String) : ProcState :=
  if σ.any (·.1 == w) then σ.map (fun kv => if kv.1 == w then (kv.1, kv.2 + 1) else kv) else σ ++ [(w, 1)]

structure Request where
  opts : Opts
  fs : FS
  file : Option Path
  src : Source

/-- one compilation in a process whose state is `σ` -/
def compileP (σ : ProcState) (r : Request) : ProcState × Result :=
  (compileWrites.foldl applyWrite σ, compile r.opts r.fs r.file r.src)

/-- a history of compilations; the result of the last one -/
def runHistory (σ : ProcState) : List Request → ProcState
  | [] => σ
  | r :: rest => runHistory (compileP σ r).1 rest

end Duckling
