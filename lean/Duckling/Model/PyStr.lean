/-
  PyStr — the `str` methods the compiler uses, over `List Char`.
  Domain: printable ASCII, TAB and caseless non-space non-numeric non-ASCII characters
  (DESIGN.md §3).  Outside that alphabet the driver answers `outOfModel`.
-/
namespace Duckling

abbrev Str := List Char

/-- Python `str.isspace` restricted to ASCII. -/
def isSpace (c : Char) : Bool :=
  c == ' ' || c == '\t' || c == '\n' || c == '\r' || c.toNat == 11 || c.toNat == 12 ||
  (28 ≤ c.toNat && c.toNat ≤ 31)

def isDigitC (c : Char) : Bool := c.isDigit

def upper (s : Str) : Str := s.map Char.toUpper
def lower (s : Str) : Str := s.map Char.toLower

def lstrip (s : Str) : Str := s.dropWhile isSpace
def rstrip (s : Str) : Str := (s.reverse.dropWhile isSpace).reverse
def strip (s : Str) : Str := rstrip (lstrip s)

def isBlank (s : Str) : Bool := s.all isSpace

/-- `s.split(maxsplit=1)`: `none` for a blank string, else the first word and the (non-empty) rest,
    whose leading blanks are removed and trailing blanks kept. -/
def splitWs1 (s : Str) : Option (Str × Option Str) :=
  let s := lstrip s
  if s.isEmpty then none else
  let w := s.takeWhile (fun c => !isSpace c)
  let r := lstrip (s.dropWhile (fun c => !isSpace c))
  if r.isEmpty then some (w, none) else some (w, some r)

/-- `s.split(c, 1)` -/
def splitChar1 (c : Char) (s : Str) : Str × Option Str :=
  let a := s.takeWhile (· != c)
  match s.dropWhile (· != c) with
  | [] => (a, none)
  | _ :: r => (a, some r)

/-- `s.split(c)` -/
def splitChar (c : Char) : Str → List Str
  | [] => [[]]
  | x :: xs =>
    if x == c then [] :: splitChar c xs
    else match splitChar c xs with
      | [] => [[x]]
      | h :: t => (x :: h) :: t

def startsWith (p s : Str) : Bool := p.isPrefixOf s
def endsWith (p s : Str) : Bool := p.reverse.isPrefixOf s.reverse
def removePrefix (p s : Str) : Str := if p.isPrefixOf s then s.drop p.length else s

def joinWith (sep : Str) : List Str → Str
  | [] => []
  | [a] => a
  | a :: rest => a ++ sep ++ joinWith sep rest

def digitChar (d : Nat) : Char := Char.ofNat ('0'.toNat + d % 10)

/-- decimal digits of `n`, most significant first (`fuel` ≥ number of digits) -/
def natDigitsAux : Nat → Nat → Str → Str
  | 0, _, acc => acc
  | fuel + 1, n, acc =>
    if n < 10 then digitChar n :: acc
    else natDigitsAux fuel (n / 10) (digitChar (n % 10) :: acc)

/-- Python `str(n)` for a natural number -/
def natToStr (n : Nat) : Str := natDigitsAux (n + 1) n []

/-- Python `str(i)` for an integer -/
def intToStr (i : Int) : Str := if i < 0 then '-' :: natToStr i.natAbs else natToStr i.natAbs

/-- value of a string of ASCII digits -/
def digitsVal (s : Str) : Nat := s.foldl (fun acc c => acc * 10 + (c.toNat - '0'.toNat)) 0

/-- the alphabet the model speaks about -/
def inDomainC (c : Char) : Bool :=
  (32 ≤ c.toNat && c.toNat < 127) || c == '\t' || c == '€' || c == '日' || c == '☃' || c == 'ツ' ||
  -- the ASCII control characters Python counts as white space (CR, VT, FF, FS, GS, RS, US): `isSpace` knows them
  c == '\r' || c.toNat == 11 || c.toNat == 12 || (28 ≤ c.toNat && c.toNat ≤ 31)

def inDomain (s : Str) : Bool := s.all inDomainC

end Duckling
