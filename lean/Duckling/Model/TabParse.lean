import Duckling.Model.PyStr
/-
  TabParse — `pre_line.py` and `tab_parse.py` (after the `fix:` for the blank-first-line defect).
-/
namespace Duckling

structure PreLine where
  content : Str
  num : Nat
deriving DecidableEq, Repr, Inhabited

inductive Node where
  | line (l : PreLine)
  | block (ns : List Node)
deriving Repr, Inhabited

inductive TabErr
  | tab (n : Nat)      -- InvalidTabError, naming line n
  | quote (n : Nat)    -- UnclosedQuotationsError, region opened on line n
deriving Repr, DecidableEq

/-- the outcome of `has_tab` -/
inductive HasTab | no | yes | discovered (t : Str)
deriving Repr, DecidableEq

def tripleQuote : Str := ['"', '"', '"']

def hasTab (s : Str) (tab : Option Str) (n : Nat) : Except TabErr HasTab :=
  match tab with
  | some t =>
    if startsWith t s then .ok .yes
    else if (s.head?.map isSpace).getD false then .error (.tab n)
    else .ok .no
  | none =>
    match s with
    | ' ' :: _ => .ok (.discovered (s.takeWhile isSpace))
    | '\t' :: _ => .ok (.discovered (s.takeWhile isSpace))
    | _ => .ok .no

structure PState where
  tab : Option Str
  conv : List PreLine := []     -- new_convertible, reversed
  ret : List Node := []         -- returnable, reversed
  free : Nat := 0               -- free_tab_mode
  seen : Bool := false          -- seen_line

abbrev ParseFn := List PreLine → Option Str → Except TabErr (List Node)

/-- one iteration of the `for count, line in enumerate(text)` loop; `rec` is the recursive call -/
def stepLine (rec : ParseFn) (count : Nat) (l : PreLine) (st : PState) : Except TabErr PState :=
  if isBlank l.content then .ok st
  else
    let first := !st.seen
    let st := { st with seen := true }
    if startsWith tripleQuote l.content && (count == 0 || st.free != 0) then
      .ok { st with free := if st.free == 0 then l.num else 0 }
    else if st.free != 0 then .ok { st with ret := .line l :: st.ret }
    else
      match hasTab l.content st.tab l.num with
      | .error e => .error e
      | .ok .no =>
        if st.conv.isEmpty then .ok { st with ret := .line l :: st.ret }
        else
          match rec st.conv.reverse st.tab with
          | .error e => .error e
          | .ok b => .ok { st with conv := [], ret := .line l :: .block b :: st.ret }
      | .ok t =>
        if first then .error (.tab l.num) else
        let tab := match t with | .discovered d => d | _ => st.tab.getD []
        .ok { st with tab := some tab, conv := ⟨l.content.drop tab.length, l.num⟩ :: st.conv }

def goLines (rec : ParseFn) : Nat → List PreLine → PState → Except TabErr PState
  | _, [], st => .ok st
  | count, l :: rest, st =>
    match stepLine rec count l st with
    | .error e => .error e
    | .ok st' => goLines rec (count + 1) rest st'

def finishParse (rec : ParseFn) (st : PState) : Except TabErr (List Node) :=
  if st.free != 0 then .error (.quote st.free)
  else if st.conv.isEmpty then .ok st.ret.reverse
  else
    match rec st.conv.reverse st.tab with
    | .error e => .error e
    | .ok b => .ok (.block b :: st.ret).reverse

/-- `parse_document`; the Python recursion passes strictly fewer lines down, so fuel = number of
    lines + 1 suffices (`parseFuel_enough`, Lemmas/TabParse). -/
def parseFuel : Nat → ParseFn
  | 0 => fun _ _ => .error (.tab 0)
  | f + 1 => fun text tab =>
    match goLines (parseFuel f) 0 text { tab := tab } with
    | .error e => .error e
    | .ok st => finishParse (parseFuel f) st

/-- `PreLine.convert_to` -/
def numberLines (lines : List Str) : List PreLine :=
  (lines.zipIdx).map fun (s, i) => ⟨s, i + 1⟩

def parseLines (lines : List Str) : Except TabErr (List Node) :=
  let pl := numberLines lines
  parseFuel (pl.length + 1) pl none

/-- nested-list input -/
inductive RawTree where
  | s (x : Str)
  | l (xs : List RawTree)
deriving Repr, Inhabited

/-- `PreLine.convert_to_recur` (with its numbering quirk below depth 1) -/
def convertRecur : List RawTree → Nat → List Node
  | [], _ => []
  | .s x :: rest, n => .line ⟨x, n + 1⟩ :: convertRecur rest (n + 1)
  | .l xs :: rest, n => .block (convertRecur xs n) :: convertRecur rest (n + xs.length)

end Duckling
