/-
  Types of the tables that `harness/translate.py` regenerates from /repo on every run
  (`Duckling/Generated/Tables.lean`).
-/
namespace Duckling

inductive ArgReq | required | allowed | notAllowed
deriving Repr, DecidableEq, Inhabited

/-- `arg_type`: the `str` type, the `int` type, or a descriptive string -/
inductive ArgType | str | int | doc
deriving Repr, DecidableEq, Inhabited

structure ClsDesc where
  cname : String
  isBlock : Bool
  names : List String
  argReq : ArgReq
  strip : Bool
  tokenize : Bool
  argType : ArgType
  flipperOnly : Bool
  params : List String
  blockRequired : Bool
  hooks : List String          -- methods the class overrides
deriving Repr, DecidableEq, Inhabited

structure OpClass where
  cname : String
  operators : List String
  precedence : List (List String)
deriving Repr, DecidableEq, Inhabited

structure OptDefaults where
  stackLimit : Nat
  includeComments : Bool
  flipperCommands : Bool
  suppressNotExist : Bool
  useProjectConfig : Bool
deriving Repr, DecidableEq, Inhabited

end Duckling
