import Duckling.Model.PyStr
/-
  Value — the Python values that reach the evaluator and the operators on them
  (`math_operator.py`, `conditional_operator.py`, `comma_operator.py`, `Operator.solve` after the
  `fix:` that turns host TypeError/ArithmeticError into MismatchError).

  Floats are exact dyadic rationals `m / 2^k` (normalised: `k = 0` or `m` odd) with an explicit
  representability guard; anything that would need rounding is `outOfModel` (DESIGN.md §3).
-/
namespace Duckling

/-- compile-error classes (`errors.py`) -/
inductive EK
  | invalidTab | unclosedQuotations | general | stackOverflow | varIsNonExistent
  | unacceptableVarName | invalidArguments | unexpectedToken | expectedToken | mismatch
  | notAValidCommand | circularStructure | exceededLimit | invalidCommand | stackReturnType
  | divideByZero
deriving Repr, DecidableEq, Inhabited

def EK.name : EK → String
  | .invalidTab => "InvalidTabError" | .unclosedQuotations => "UnclosedQuotationsError"
  | .general => "GeneralError" | .stackOverflow => "StackOverflowError"
  | .varIsNonExistent => "VarIsNonExistentError" | .unacceptableVarName => "UnacceptableVarNameError"
  | .invalidArguments => "InvalidArgumentsError" | .unexpectedToken => "UnexpectedTokenError"
  | .expectedToken => "ExpectedTokenError" | .mismatch => "MismatchError"
  | .notAValidCommand => "NotAValidCommand" | .circularStructure => "CircularStructureError"
  | .exceededLimit => "ExceededLimitError" | .invalidCommand => "InvalidCommand"
  | .stackReturnType => "StackReturnTypeError" | .divideByZero => "DivideByZeroError"

/-- Result of a computation that has no trace of its own (the caller attaches it). -/
inductive Outcome (α : Type)
  | ok (a : α)
  | cerr (k : EK)          -- a compile error of class k
  | crash (e : String)     -- a non-compile Python exception escapes
  | oom (why : String)     -- the model declines to predict Python here
deriving Repr

instance : Monad Outcome where
  pure := .ok
  bind x f := match x with
    | .ok a => f a | .cerr k => .cerr k | .crash e => .crash e | .oom w => .oom w

inductive Val
  | int (i : Int)
  | flt (m : Int) (k : Nat)       -- m / 2^k
  | str (s : Str)
  | bool (b : Bool)
  | list (l : List Val)
deriving Repr, Inhabited, BEq

namespace Val

/-- normalise a dyadic -/
def normFlt : Int → Nat → Int × Nat
  | m, 0 => (m, 0)
  | m, k + 1 => if m % 2 == 0 then normFlt (m / 2) k else (m, k + 1)

def pow2 (k : Nat) : Nat := 2 ^ k

/-- the double guard: 53-bit mantissa, |value| < 1e16 and, when non-zero, ≥ 1e-4;
    at most 15 significant decimal digits so that `repr` is the exact expansion -/
def sigDigits (m : Int) (k : Nat) : Nat :=
  -- exact decimal expansion of |m|/2^k = (|m| * 5^k) / 10^k : digits of |m|*5^k without trailing zeros
  let n := m.natAbs * 5 ^ k
  let rec strip (fuel : Nat) (n : Nat) : Nat :=
    match fuel with
    | 0 => n
    | f + 1 => if n != 0 && n % 10 == 0 then strip f (n / 10) else n
  (toString (strip 400 n)).length

def representable (m : Int) (k : Nat) : Bool :=
  m.natAbs < 2 ^ 53 && k ≤ 60 &&
  m.natAbs < 10 ^ 16 * 2 ^ k &&
  (m == 0 || m.natAbs * 10 ^ 4 ≥ 2 ^ k) &&
  sigDigits m k ≤ 15

/-- a float result or literal; a whole value is an integer at once (the `fix:` in `Operator.solve` / `Number.set_value`) -/
def mkFlt (m : Int) (k : Nat) : Outcome Val :=
  let (m', k') := normFlt m k
  if representable m' k' then .ok (if k' == 0 then .int m' else .flt m' k')
  else .oom "float needs rounding or leaves the guarded range"

/-- `repr(float)` inside the guard: the plain decimal expansion -/
def reprFlt (m : Int) (k : Nat) : Outcome Str :=
  if m == 0 then .oom "printing a float zero (sign of zero is not modelled)" else
  let a := m.natAbs
  let ip := a / 2 ^ k
  let fp := (a % 2 ^ k) * 5 ^ k          -- k digits after the point
  let fs := natToStr fp
  let fs := List.replicate (k - fs.length) '0' ++ fs
  let fs := if k == 0 then ['0'] else fs
  .ok ((if m < 0 then ['-'] else []) ++ natToStr ip ++ ['.'] ++ fs)

def hugeInt (i : Int) : Bool := i.natAbs ≥ 10 ^ 1000

/-- Python `str(v)` -/
def pyStr : Val → Outcome Str
  | .int i => if hugeInt i then .oom "str() of a huge int" else .ok (intToStr i)
  | .flt m k => reprFlt m k
  | .str s => .ok s
  | .bool b => .ok (if b then "True" else "False").toList
  | .list _ => .oom "str() of a list"

def truthy : Val → Bool
  | .int i => i != 0
  | .flt m _ => m != 0
  | .str s => !s.isEmpty
  | .bool b => b
  | .list l => !l.isEmpty

/-- numeric view: value = n / 2^k, and whether the Python type is float -/
def num? : Val → Option (Int × Nat × Bool)
  | .int i => some (i, 0, false)
  | .flt m k => some (m, k, true)
  | .bool b => some ((if b then 1 else 0), 0, false)
  | _ => none

/-- bring two dyadics to a common exponent -/
def align (a : Int) (ka : Nat) (b : Int) (kb : Nat) : Int × Int × Nat :=
  let k := max ka kb
  (a * 2 ^ (k - ka), b * 2 ^ (k - kb), k)

def mkNum (isF : Bool) (m : Int) (k : Nat) : Outcome Val :=
  if isF then mkFlt m k
  else if hugeInt m then .oom "huge int" else .ok (.int m)

def cmpNum (a : Int) (ka : Nat) (b : Int) (kb : Nat) : Ordering :=
  let (x, y, _) := align a ka b kb
  compare x y

def strLt : Str → Str → Bool
  | [], [] => false
  | [], _ :: _ => true
  | _ :: _, [] => false
  | a :: as, b :: bs => if a.toNat < b.toNat then true else if a.toNat > b.toNat then false else strLt as bs

def strCmp (a b : Str) : Ordering := if a == b then .eq else if strLt a b then .lt else .gt

/-- Python `==` (lists are compared by the caller: out of model) -/
def pyEq : Val → Val → Bool
  | .str a, .str b => a == b
  | x, y =>
    match num? x, num? y with
    | some (a, ka, _), some (b, kb, _) => cmpNum a ka b kb == .eq
    | _, _ => false

def isList : Val → Bool | .list _ => true | _ => false

/-- integer power -/
def ipow (a : Int) (n : Nat) : Int := a ^ n

def isPow2 (n : Nat) : Bool := n != 0 && (n &&& (n - 1)) == 0

/-- exact quotient p/q (q ≠ 0) as a dyadic, if it is one -/
def divDyadic (p q : Int) : Option (Int × Nat) :=
  let g := Nat.gcd p.natAbs q.natAbs
  if g == 0 then some (0, 0) else
  let p' := p / g
  let q' := q / g
  let (p', q') := if q' < 0 then (-p', -q') else (p', q')
  if isPow2 q'.natAbs then some (p', q'.natAbs.log2) else none

/-- the four ordering comparisons -/
def cmpOp (op : String) (l r : Val) : Outcome Val :=
  let dec := fun (o : Ordering) =>
    match op with
    | "<" => o == .lt | ">" => o == .gt | "<=" => o != .gt | _ => o != .lt
  match l, r with
  | .str a, .str b => .ok (.bool (dec (strCmp a b)))
  | .list _, .list _ => .oom "ordering of lists"
  | _, _ =>
    match num? l, num? r with
    | some (a, ka, _), some (b, kb, _) => .ok (.bool (dec (cmpNum a ka b kb)))
    | _, _ => .cerr .mismatch

/-- `+`: concatenation when either side is a string, else numeric addition (or list concatenation) -/
def addOp (l r : Val) : Outcome Val :=
  match l, r with
  | .str a, _ => do let b ← pyStr r; .ok (.str (a ++ b))
  | _, .str b => do let a ← pyStr l; .ok (.str (a ++ b))
  | .list a, .list b => .ok (.list (a ++ b))
  | _, _ =>
    match num? l, num? r with
    | some (a, ka, fa), some (b, kb, fb) =>
      let (x, y, k) := align a ka b kb
      mkNum (fa || fb) (x + y) k
    | _, _ => .cerr .mismatch

/-- `- * / // % ^` on two numbers (`a/2^ka`, float-typed iff `fa`) -/
def numOp (op : String) (a : Int) (ka : Nat) (fa : Bool) (b : Int) (kb : Nat) (fb : Bool) : Outcome Val :=
  let isF := fa || fb
  match op with
  | "-" => let (x, y, k) := align a ka b kb; mkNum isF (x - y) k
  | "*" => mkNum isF (a * b) (ka + kb)
  | "/" =>
    if b == 0 then .cerr .divideByZero else
    -- (a/2^ka) / (b/2^kb) = (a * 2^kb) / (b * 2^ka)
    match divDyadic (a * 2 ^ kb) (b * 2 ^ ka) with
    | some (p, k) => mkFlt p k
    | none => .oom "inexact division"
  | "//" =>
    if b == 0 then .cerr .divideByZero else
    let (x, y, _) := align a ka b kb
    mkNum isF (Int.fdiv x y) 0
  | "%" =>
    if b == 0 then .cerr .divideByZero else
    let (x, y, k) := align a ka b kb
    mkNum isF (Int.fmod x y) k
  | "^" =>
    if kb != 0 then .oom "non-integral exponent" else
    if b ≥ 0 then
      if b > 1000 then .oom "huge exponent" else
      mkNum isF (ipow a b.toNat) (ka * b.toNat)
    else
      if a == 0 then .cerr .divideByZero else
      if b < -1000 then .oom "huge exponent" else
      -- (a/2^ka)^b = 2^(ka*|b|) / a^|b| ; Python's result is a float
      match divDyadic (2 ^ (ka * b.natAbs)) (ipow a b.natAbs) with
      | some (p, k) => mkFlt p k
      | none => .oom "inexact power"
  | _ => .oom "unknown operator"

/-- `- * / // % ^` : the left operand's type must be exactly int or float -/
def arithOp (op : String) (l r : Val) : Outcome Val :=
  match l with
  | .int _ | .flt _ _ =>
    match num? l with
    | none => .cerr .mismatch
    | some (a, ka, fa) =>
      match op, r with
      | "*", .str s =>
        if fa then .cerr .mismatch
        else if a.toNat * s.length > 100000 then .oom "huge string repetition"
        else .ok (.str ((List.replicate a.toNat s).flatten))
      | "*", .list _ => if fa then .cerr .mismatch else .oom "list repetition"
      | _, _ =>
        match num? r with
        | none => .cerr .mismatch
        | some (b, kb, fb) => numOp op a ka fa b kb fb
  | _ => .cerr .mismatch

/-- `Operator.solve_operand` of the three operator classes, with the `fix:` wrapper of
    `Operator.solve` applied: a host TypeError/ArithmeticError is `mismatch`,
    ZeroDivisionError is `divideByZero`. -/
def binop (op : String) (l r : Val) : Outcome Val :=
  match op with
  | "," =>
    match l with
    | .list xs => .ok (.list (xs ++ [r]))
    | _ => .ok (.list [l, r])
  | "==" => if isList l && isList r then .oom "equality of lists" else .ok (.bool (pyEq l r))
  | "!=" => if isList l && isList r then .oom "equality of lists" else .ok (.bool (!pyEq l r))
  | "<" | ">" | "<=" | ">=" => cmpOp op l r
  | "+" => addOp l r
  | _ => arithOp op l r

/-- float → int normalisation applied by `Tokenizer.solve` at every parenthesis level -/
def normalise : Val → Val
  | .flt m 0 => .int m
  | v => v

end Val
end Duckling
