import Duckling.Model.Compile
import Duckling.Lemmas.Simple
import Duckling.Lemmas.Seq
import Duckling.Lemmas.DelayLine
import Duckling.Lemmas.Digits
/-
  C01 — plain Ducky/Flipper scripts pass through unchanged.

  A line of a flat script is a command word and an optional rest.  For every word (in any letter case),
  every state, every context:
  * `C01_dispatch`               the word is dispatched to the palette class that lists its upper-cased form, found by
                                  the same first-match search the code does (table facts by `decide` on the regenerated palette);
  * `C01_names_disjoint`         no two palette classes claim the same name, so palette order does not matter for plain lines;
  * `C01_noarg_line`             a key that takes no argument (arrow keys, extended keys, MENU — and bare ENTER, CTRL, …) emits its upper-cased name;
  * `C01_text_line`              STRING / STRINGLN (not stripped) emit the text from its first non-blank character to the end of
                                  the line; ALTSTRING / ALTCODE / REM-with-comments emit the trimmed text;
  * `C01_modifier_char` / `C01_modifier_key`  CTRL/ALT/GUI/Flipper modifiers with one character emit it unchanged; a listed key
                                  name in any case is accepted (ALT upper-cases it, CTRL and SHIFT keep it as written);
  * `C01_rem_dropped`            REM emits nothing when comments are off and changes nothing;
  * `C01_legacy_repeat`          `REPEAT n` without a block emits `REPEAT n`;
  * `C01_compile` / `C01_table_facts`   the same for `Compiler.compile`; the table facts the line theorems rest on;
  * `C01_script`                 a script all of whose lines pass through (each emitting its own lines, leaving warnings and
                                  prints alone and yielding no signal, from every state) compiles to the concatenation of those lines, in order,
                                  with no warning and no print — for scripts of any length.
  * `C01_delay_line` / `C01_default_delay_line`   **DELAY / DEFAULT_DELAY**: the argument of these two goes through the character scanner
                                  and the evaluator; for ANY non-empty string of digits (any length below the model's big-number guard, leading
                                  zeros, any blanks around it, any variables in scope, any casing of the word) the line emits `DELAY n` /
                                  `DEFAULT_DELAY n` with `n` the number the digits denote, yields no signal, and leaves the state alone (DEFAULT_DELAY
                                  records the value in `$DEFAULT_DELAY`) — by the scanner theorem `lex_digits` (a digit string is ONE number token:
                                  induction over the scanner's character loop) and `tokenize_digits`;
  * `C01_delay_dispatch`         the words DELAY, DEFAULT_DELAY, DEFAULTDELAY in any casing are dispatched to those two classes.
  ALTCHAR is covered by `C02_every_emission_legal` and the correspondence, not by a line theorem here.
-/
namespace Duckling.Props.C01
open Duckling

/-- the first-match search of `Stack.run` for a word without `$` and without a block -/
def claims (nm : String) (c : ClsDesc) : Bool :=
  if c.isBlock then (!c.blockRequired && c.names.contains nm) else c.names.contains nm

theorem C01_dispatch (word : Str) (nm : String) (hw : String.ofList (upper word) = nm)
    (hd : startsWith ['$'] (upper word) = false) (hd' : startsWith ['$'] word = false) :
    dispatch word false = Generated.palette.find? (claims nm) := by
  unfold dispatch
  congr 1
  funext c
  simp only [isThisCommand, claims, hw, hd, hd']
  cases c.isBlock <;> simp

theorem C01_names_disjoint : (Generated.palette.flatMap (·.names)).Nodup := by decide

/-- a pass-through line: from every state it emits `out`, leaves warnings, prints and user variables alone and yields no signal -/
def PassesThrough (child : Option ChildFn) (ctx : Ctx) (l : PreLine) (out : List Str) : Prop :=
  ∀ st, ∃ st', stepCmd child ctx l none st = .ok { st := st', out := out, sig := .normal } ∧
    st'.warns = st.warns ∧ st'.prints = st.prints ∧ st'.env.user = st.env.user

theorem stepCmd_simple (child : Option ChildFn) (ctx : Ctx) (l : PreLine) (st : St) (word : Str) (arg : Option Str) (c : ClsDesc)
    (hsplit : splitWs1 l.content = some (word, arg)) (hdisp : dispatch word false = some c) (hb : c.isBlock = false) :
    stepCmd child ctx l none st = compileSimple child ctx c word l.num arg none st := by
  simp [stepCmd, hsplit, hasBlockOf, hdisp, hb]

theorem C01_noarg_line (child : Option ChildFn) (ctx : Ctx) (l : PreLine) (word : Str) (c : ClsDesc)
    (hsplit : splitWs1 l.content = some (word, none)) (hdisp : dispatch word false = some c)
    (hp : PlainCls ctx c) (hd : startsWith ['$'] (upper word) = false) (hreq : c.argReq ≠ .required) :
    PassesThrough child ctx l [upper word] := by
  intro st
  exact ⟨st, by rw [stepCmd_simple child ctx l st word none c hsplit hdisp hp.notBlock, plain_bare child ctx c hp word l.num st hd hreq], rfl, rfl, rfl⟩

theorem C01_text_line (child : Option ChildFn) (ctx : Ctx) (l : PreLine) (word text : Str) (c : ClsDesc)
    (hsplit : splitWs1 l.content = some (word, some text)) (hdisp : dispatch word false = some c)
    (hp : PlainCls ctx c) (hd : startsWith ['$'] (upper word) = false) (hne : text.isEmpty = false) (hallow : c.argReq ≠ .notAllowed)
    (hnov : hasHook c "verify_arg" = false) (hnof : hasHook c "format_arg" = false) :
    PassesThrough child ctx l [upper word ++ [' '] ++ (if c.strip then strip text else text)] := by
  intro st
  refine ⟨st, ?_, rfl, rfl, rfl⟩
  rw [stepCmd_simple child ctx l st word (some text) c hsplit hdisp hp.notBlock,
      plain_inline child ctx c hp word text l.num st hd hne hallow (by simp [verifyArgHook, hnov])]
  simp [formatArg, hnof, Arg.str]

/-- the legacy form: `REPEAT n` without a block is not a loop, it emits `REPEAT n` -/
theorem C01_legacy_repeat (ctx : Ctx) (pos : Pos) (n : Str) (st : St) (hn : ',' ∉ n) :
    repeatPre ctx pos (some n) false st = .ok (.done { st := st, out := ["REPEAT ".toList ++ n] }) := by
  have hp : parseLoopArg n = (none, n) := by
    unfold parseLoopArg splitChar1
    have h12 : n.takeWhile (· != ',') = n ∧ n.dropWhile (· != ',') = [] := by
      induction n with
      | nil => simp
      | cons c cs ih =>
        have hc : c ≠ ',' := fun e => hn (by simp [e])
        have hcs : ',' ∉ cs := fun e => hn (by simp [e])
        have hb : (c != ',') = true := by simpa using hc
        simp [List.takeWhile, List.dropWhile, hb, ih hcs]
    simp [h12.1, h12.2]
  simp [repeatPre, hp]

/-- CTRL / ALT / GUI / SYSRQ / CTRL-ALT … with a single character -/
theorem C01_modifier_char (child : Option ChildFn) (ctx : Ctx) (l : PreLine) (word text : Str) (c : ClsDesc) (ch : Char)
    (hsplit : splitWs1 l.content = some (word, some text)) (hdisp : dispatch word false = some c)
    (hp : PlainCls ctx c) (hd : startsWith ['$'] (upper word) = false) (hne : text.isEmpty = false) (hallow : c.argReq ≠ .notAllowed)
    (hstrip : c.strip = true) (hch : strip text = [ch])
    (hcls : c.cname = "Alt" ∨ c.cname = "Ctrl" ∨ c.cname = "Gui" ∨ c.cname = "FlipperSysrq" ∨ c.cname = "FlipperModifierKeys")
    (hnotkey : (paramsOf c).contains (upper [ch]) = false) :
    PassesThrough child ctx l [upper word ++ [' ', ch]] := by
  intro st
  refine ⟨st, ?_, rfl, rfl, rfl⟩
  have hnk : upper [ch] ∉ paramsOf c := by simpa using hnotkey
  have hv : verifyArgHook c ⟨.str (if c.strip then strip text else text), l.num, l.num⟩ = true := by
    simp only [hstrip, if_true, hch]
    unfold verifyArgHook
    split
    · rfl
    · rcases hcls with h | h | h | h | h <;> simp [h, Arg.str]
  rw [stepCmd_simple child ctx l st word (some text) c hsplit hdisp hp.notBlock,
      plain_inline child ctx c hp word text l.num st hd hne hallow hv]
  simp only [hstrip, if_true, hch]
  have : (formatArg c ⟨.str [ch], l.num, l.num⟩).str = [ch] := by
    unfold formatArg
    split
    · rfl
    · rcases hcls with h | h | h | h | h <;> simp [h, Arg.str, hnk]
  simp [this]

/-- a listed key name, in any letter case -/
theorem C01_modifier_key (child : Option ChildFn) (ctx : Ctx) (l : PreLine) (word text : Str) (c : ClsDesc)
    (hsplit : splitWs1 l.content = some (word, some text)) (hdisp : dispatch word false = some c)
    (hp : PlainCls ctx c) (hd : startsWith ['$'] (upper word) = false) (hne : text.isEmpty = false) (hallow : c.argReq ≠ .notAllowed)
    (hstrip : c.strip = true) (hcls : c.cname = "Alt" ∨ c.cname = "Ctrl" ∨ c.cname = "Shift")
    (hkey : (paramsOf c).contains (upper (strip text)) = true) :
    PassesThrough child ctx l [upper word ++ [' '] ++ (if c.cname = "Alt" ∧ hasHook c "format_arg" = true then upper (strip text) else strip text)] := by
  intro st
  refine ⟨st, ?_, rfl, rfl, rfl⟩
  have hk : upper (strip text) ∈ paramsOf c := by simpa using hkey
  have hv : verifyArgHook c ⟨.str (if c.strip then strip text else text), l.num, l.num⟩ = true := by
    simp only [hstrip, if_true]
    unfold verifyArgHook
    split
    · rfl
    · rcases hcls with h | h | h <;> simp [h, Arg.str, hk]
  rw [stepCmd_simple child ctx l st word (some text) c hsplit hdisp hp.notBlock,
      plain_inline child ctx c hp word text l.num st hd hne hallow hv]
  simp only [hstrip, if_true]
  congr 3
  unfold formatArg
  rcases hcls with h | h | h
  · by_cases hf : hasHook c "format_arg" = true
    · simp [h, hf, Arg.str, hk]
    · have : hasHook c "format_arg" = false := by simpa using hf
      simp [h, this, Arg.str]
  · have hne : ¬ c.cname = "Alt" := by rw [h]; decide
    split <;> simp [h, Arg.str, hne]
  · have hne : ¬ c.cname = "Alt" := by rw [h]; decide
    split <;> simp [h, Arg.str, hne]

/-- REM with comments disabled: nothing is emitted, nothing changes -/
theorem C01_rem_dropped (child : Option ChildFn) (ctx : Ctx) (l : PreLine) (word : Str) (arg : Option Str) (c : ClsDesc)
    (hsplit : splitWs1 l.content = some (word, arg)) (hdisp : dispatch word false = some c)
    (hc : c.cname = "Rem") (hb : c.isBlock = false) (hfl : c.flipperOnly = false) (htok : c.tokenize = false)
    (hty : c.argType = .str) (hreq : c.argReq = .allowed) (hrun : hasHook c "run_compile" = true)
    (hva : hasHook c "verify_args" = false) (hv : hasHook c "verify_arg" = false) (hf : hasHook c "format_arg" = false)
    (hd : startsWith ['$'] (upper word) = false) (hcom : ctx.opts.comments = false) :
    PassesThrough child ctx l [] := by
  intro st
  refine ⟨st, ?_, rfl, rfl, rfl⟩
  rw [stepCmd_simple child ctx l st word arg c hsplit hdisp hb]
  have hns : (c.cname == "Start") = false := by rw [hc]; decide
  cases arg with
  | none =>
    simp [compileSimple, simplePre, prepareArgs, checkArgs, itemsOf, nameOf, hfl, hns, htok, hty, hd, listifyArgs, hreq, verifyTypes, verifyArgsHook, hva, verifyEach,
      multiComp, runCompile, hrun, hc, runCompileLocal, hcom]
  | some a =>
    by_cases ha : a.isEmpty = true
    · simp [compileSimple, simplePre, prepareArgs, checkArgs, itemsOf, nameOf, hfl, hns, htok, hty, hd, listifyArgs, ha, hreq, verifyTypes, verifyArgsHook, hva, verifyEach,
        multiComp, runCompile, hrun, hc, runCompileLocal, hcom]
    · have ha' : a.isEmpty = false := by simpa using ha
      cases hs : c.strip <;>
      simp [compileSimple, simplePre, prepareArgs, checkArgs, itemsOf, nameOf, hfl, hns, htok, hty, hd, listifyArgs, listifyArgs.go, ha', hs, hreq, verifyTypes, typeOk,
        isListVal, Arg.str, verifyArgsHook, hva, verifyEach, verifyArgHook, hv, formatArg, hf,
        multiComp, runCompile, hrun, hc, runCompileLocal, hcom]

/-- a flat script: every line passes through ⇒ the script compiles to the concatenation, in order -/
theorem C01_script (child : Option ChildFn) (ctx : Ctx) (ls : List (PreLine × List Str))
    (hall : ∀ p ∈ ls, PassesThrough child ctx p.1 p.2) (st : St) (acc : List Str) :
    ∃ st', runNodes child ctx (ls.map (fun p => Node.line p.1)) st acc =
        .ok { st := st', out := acc ++ ls.flatMap (·.2), sig := .normal } ∧
      st'.warns = st.warns ∧ st'.prints = st.prints ∧ st'.env.user = st.env.user := by
  induction ls generalizing st acc with
  | nil => exact ⟨st, by simp [runNodes], rfl, rfl, rfl⟩
  | cons p rest ih =>
    obtain ⟨st1, h1, hw1, hp1, hu1⟩ := hall p (by simp) st
    have hnb : nextBlock (rest.map (fun p => Node.line p.1)) = none := by
      cases rest <;> rfl
    obtain ⟨st2, h2, hw2, hp2, hu2⟩ := ih (fun q hq => hall q (List.mem_cons_of_mem _ hq)) st1 (acc ++ p.2)
    refine ⟨st2, ?_, hw2.trans hw1, hp2.trans hp1, hu2.trans hu1⟩
    simp only [List.map_cons, runNodes, hnb, h1, R.bind_ok, beq_self_eq_true, if_true, h2, List.flatMap_cons, List.append_assoc]

/-- the whole compilation of a flat pass-through script: the lines, no warning, no print -/
theorem C01_compile (o : Opts) (fs : FS) (ls : List (PreLine × List Str)) (nodes : List Node)
    (hnodes : nodes = ls.map (fun p => Node.line p.1)) (src : Source) (hprep : prepare src = .ok nodes)
    (hall : ∀ child, ∀ p ∈ ls, PassesThrough child { opts := o.flags, fs := fs, frames := [], file := none } p.1 p.2) :
    ∃ vars, compile o fs none src = .ok (ls.flatMap (·.2)) [] [] vars := by
  unfold compile
  simp only [hprep]
  have key : ∀ child, ∃ st', runNodes child { opts := o.flags, fs := fs, frames := [], file := none } nodes { env := initEnv } [] =
        .ok { st := st', out := [] ++ ls.flatMap (·.2), sig := .normal } ∧ st'.warns = [] ∧ st'.prints = [] ∧ st'.env.user = initEnv.user := by
    intro child
    rw [hnodes]
    exact C01_script child _ ls (hall child) { env := initEnv } []
  cases hd : o.stackLimit - 1 with
  | zero =>
    obtain ⟨st', h, hw, hp, _⟩ := key none
    simp only [exec, h, startBaseWarn]
    exact ⟨st'.env.user, by simp [hw, hp]⟩
  | succ d =>
    obtain ⟨st', h, hw, hp, _⟩ := key (some (exec d))
    simp only [exec, h, startBaseWarn]
    exact ⟨st'.env.user, by simp [hw, hp]⟩

/-- the table side conditions for the documented plain commands hold on the regenerated palette -/
theorem C01_table_facts :
    (∀ c ∈ Generated.palette, c.cname ∈ ["ArrowKeys", "Extended", "Menu"] →
        c.isBlock = false ∧ c.argReq = .notAllowed ∧ c.tokenize = false ∧ c.argType = .str ∧ c.hooks = [] ∧ c.flipperOnly = false) ∧
    (∀ c ∈ Generated.palette, c.cname = "String" →
        c.isBlock = false ∧ c.strip = false ∧ c.argReq = .allowed ∧ c.tokenize = false ∧ c.argType = .str ∧ c.hooks = [] ∧ c.flipperOnly = false) ∧
    (∀ c ∈ Generated.palette, c.cname ∈ ["Alt", "Ctrl", "Shift", "Gui"] →
        c.isBlock = false ∧ c.strip = true ∧ c.argReq = .allowed ∧ c.tokenize = false ∧ c.argType = .str ∧ c.flipperOnly = false ∧
        "run_compile" ∉ c.hooks ∧ "verify_args" ∉ c.hooks) := by decide

/-- DELAY with a digit-string argument passes through, written as the number it denotes -/
theorem C01_delay_line (child : Option ChildFn) (ctx : Ctx) (word a ds : Str) (line : Nat) (st : St)
    (hd : startsWith ['$'] (upper word) = false) (ha : a.isEmpty = false) (hds : strip a = ds)
    (hne : ds ≠ []) (hall : ds.all isDigitC = true) (hsmall : Val.hugeInt (digitsVal ds) = false) :
    compileSimple child ctx delayRow word line (some a) none st =
      .ok { st := st, out := [upper word ++ [' '] ++ natToStr (digitsVal ds)], sig := .normal } :=
  delay_line child ctx word a ds line st hd ha hds hne hall hsmall

theorem C01_default_delay_line (child : Option ChildFn) (ctx : Ctx) (word a ds : Str) (line : Nat) (st : St)
    (hd : startsWith ['$'] (upper word) = false) (ha : a.isEmpty = false) (hds : strip a = ds)
    (hne : ds ≠ []) (hall : ds.all isDigitC = true) (hsmall : Val.hugeInt (digitsVal ds) = false)
    (hsys : assocHas st.env.sys sysVarDefaultDelay = true) :
    compileSimple child ctx defaultDelayRow word line (some a) none st =
      .ok { st := { st with env := { st.env with sys := assocSet st.env.sys sysVarDefaultDelay (.int (digitsVal ds)) } },
            out := [upper word ++ [' '] ++ natToStr (digitsVal ds)], sig := .normal } :=
  default_delay_line child ctx word a ds line st hd ha hds hne hall hsmall hsys

/-- the delay words reach the delay classes (with `C01_dispatch`) -/
theorem C01_delay_dispatch :
    Generated.palette.find? (claims "DELAY") = some delayRow ∧
    Generated.palette.find? (claims "DEFAULT_DELAY") = some defaultDelayRow ∧
    Generated.palette.find? (claims "DEFAULTDELAY") = some defaultDelayRow := by decide

/-- non-vacuity: `007` is a digit string denoting 7, and 7 is written `7` -/
example : ("007".toList).all isDigitC = true ∧ digitsVal "007".toList = 7 ∧ natToStr 7 = "7".toList := by decide

/-- the big-number guard of the model is far away from any delay one would write -/
theorem C01_delay_guard (n : Nat) (h : n < 10 ^ 1000) : Val.hugeInt (n : Int) = false := by
  simp only [Val.hugeInt, Int.natAbs_natCast, ge_iff_le, decide_eq_false_iff_not, Nat.not_le]
  exact h

/-- **the number a DELAY / DEFAULT_DELAY line is written out with denotes the number the source digits denote** (`DELAY 007` is written
    `DELAY 7`): the printed form of a natural number is a non-empty digit string whose value is that number -/
theorem C01_written_number_denotes_value (ds : Str) :
    digitsVal (natToStr (digitsVal ds)) = digitsVal ds ∧ (natToStr (digitsVal ds)).all isDigitC = true ∧ natToStr (digitsVal ds) ≠ [] :=
  ⟨digitsVal_natToStr _, (natToStr_digits _).1, (natToStr_digits _).2⟩

end Duckling.Props.C01
