import Duckling.Model.Compile
import Duckling.Spec.Ducky
import Duckling.Lemmas.SimplePre
import Duckling.Lemmas.Digits
/-
  C02 — validated commands never emit an illegal line.

  `Spec.legalLine` (frozen, from the documented line language) says which lines are legal for the commands
  DucklingScript validates.  The theorems are about `compileSimple`, i.e. about *every* delivery form at once
  (inline, grouped block, first argument + group, `$`-evaluated — hence also variables, function parameters and
  loop counters, which are just expressions): whatever `simplePre` accepted satisfies the hooks (`simplePre_spec`).

  * `C02_spec_covers_code`     every key name the code accepts for ALT / CTRL / SHIFT is a documented key of that modifier,
                                and the validated classes' names are the documented command names (table facts, re-checked on every run);
  * `C02_multi_invariant`      every line `__multi_comp` emits satisfies `P` if every single `run_compile` call's lines do;
  * `C02_delay_legal`          DELAY / DEFAULT_DELAY emit `NAME <non-negative integer literal>` — never a negative, fractional,
                                boolean or string argument, however delivered;
  * `C02_noarg_legal`          ENTER, arrow keys, extended keys, MENU emit the bare name (ENTER evaluated with a count emits bare ENTER lines);
  * `C02_modifier_legal`       ALT / CTRL / CONTROL / SHIFT / GUI / WINDOWS / META emit nothing but the name, the name plus one
                                character (not SHIFT), or the name plus a listed key in any letter case;
  * `C02_altchar_legal`        ALTCHAR emits a 1–4 digit code; `C02_flipper_mod_legal` the Flipper modifiers and SYSRQ one character or nothing.
  The lifting to whole programs ("no DucklingScript-only keyword is emitted without a warning or IGNORE")
  is validated by the oracle on generated programs, not proved — `partial` in that respect.
-/
namespace Duckling.Props.C02
open Duckling Duckling.Spec

/-- table checks: names and accepted keys of the modifier classes are documented ones -/
def altTableOk : Bool := Generated.palette.all fun c => c.cname != "Alt" || (c.names == ["ALT"] && c.params.all (altKeys.contains ·))
def ctrlTableOk : Bool := Generated.palette.all fun c => c.cname != "Ctrl" || (c.names == ["CTRL", "CONTROL"] && c.params.all (ctrlKeys.contains ·))
def shiftTableOk : Bool := Generated.palette.all fun c => c.cname != "Shift" || (c.names == ["SHIFT"] && c.params.all (shiftKeys.contains ·))
def guiTableOk : Bool := Generated.palette.all fun c => c.cname != "Gui" || c.names == ["GUI", "WINDOWS", "META"]

/-- table check: the other validated classes -/
def validatedTableOk : Bool :=
  Generated.palette.all fun c =>
    (c.cname != "Delay" || (c.names == ["DELAY"] && c.argType == .int && c.hooks.contains "verify_arg" && !c.hooks.contains "run_compile")) &&
    (c.cname != "DefaultDelay" || (c.names == ["DEFAULT_DELAY", "DEFAULTDELAY"] && c.argType == .int && c.hooks.contains "verify_arg")) &&
    (!(["ArrowKeys", "Extended", "Menu"].contains c.cname) || (c.argReq == .notAllowed && c.hooks == [] && c.names.all (noArgKeys.contains ·))) &&
    (c.cname != "Enter" || (c.names == ["ENTER"] && c.argType == .int)) &&
    (c.cname != "FlipperAltChar" || (c.names == ["ALTCHAR"] && c.hooks.contains "verify_arg" && c.strip)) &&
    (!(["FlipperModifierKeys", "FlipperSysrq"].contains c.cname) || (c.hooks.contains "verify_arg" && c.names.all (oneCharOrBare.contains ·)))

theorem C02_spec_covers_code :
    altTableOk = true ∧ ctrlTableOk = true ∧ shiftTableOk = true ∧ guiTableOk = true ∧ validatedTableOk = true := by decide

theorem keys_are_upper : ∀ k ∈ altKeys ++ ctrlKeys ++ shiftKeys, upper k.toList = k.toList := by decide

/-- every line `__multi_comp` emits satisfies `P` if the lines of every `run_compile` call do -/
theorem C02_multi_invariant (P : Str → Prop) (child : Option ChildFn) (ctx : Ctx) (c : ClsDesc) (name : Str) (line : Nat)
    (items : List (Option Arg)) (st : St) (out : List Str) (sig : Sig) (r : Out)
    (h : multiComp child ctx c name line items st out sig = .ok r) (hout : ∀ l ∈ out, P l)
    (hsite : ∀ a ∈ items, ∀ st rc, runCompile child ctx c name line a st = .ok rc → ∀ l ∈ rc.out, P l) :
    ∀ l ∈ r.out, P l := by
  induction items generalizing st out sig with
  | nil => simp only [multiComp] at h; cases h; exact hout
  | cons a rest ih =>
    simp only [multiComp, R.bind_eq_ok] at h
    obtain ⟨rc, hrc, h⟩ := h
    apply ih _ _ _ h
    · intro l hl
      rcases List.mem_append.mp hl with hl | hl
      · exact hout l hl
      · exact hsite a (by simp) st rc hrc l hl
    · intro a' ha'; exact hsite a' (List.mem_cons_of_mem _ ha')

theorem takeWhile_sep (w rest : Str) (hw : ' ' ∉ w) :
    (w ++ ' ' :: rest).takeWhile (· != ' ') = w ∧ (w ++ ' ' :: rest).dropWhile (· != ' ') = ' ' :: rest := by
  induction w with
  | nil => simp
  | cons c cs ih =>
    have hc : c ≠ ' ' := fun e => hw (by simp [e])
    have hcs : ' ' ∉ cs := fun e => hw (by simp [e])
    simp [hc, ih hcs]

theorem takeWhile_nosep (w : Str) (hw : ' ' ∉ w) :
    w.takeWhile (· != ' ') = w ∧ w.dropWhile (· != ' ') = [] := by
  induction w with
  | nil => simp
  | cons c cs ih =>
    have hc : c ≠ ' ' := fun e => hw (by simp [e])
    have hcs : ' ' ∉ cs := fun e => hw (by simp [e])
    simp [hc, ih hcs]

/-- the emitted form of one argument -/
theorem legalLine_arg (w : String) (wl content : Str) (hwl : String.ofList wl = w) (hsp : ' ' ∉ wl) :
    legalLine (wl ++ [' '] ++ content) = legalArg w (some content) := by
  have := takeWhile_sep wl content hsp
  simp only [List.append_assoc, List.singleton_append]
  simp [legalLine, this.1, this.2, hwl]

theorem legalLine_bare (w : String) (wl : Str) (hwl : String.ofList wl = w) (hsp : ' ' ∉ wl) :
    legalLine wl = legalArg w none := by
  have := takeWhile_nosep wl hsp
  simp [legalLine, this.1, this.2, hwl]

/-- DELAY / DEFAULT_DELAY: a verified integer argument prints as a non-negative integer literal -/
theorem C02_delay_legal (w : String) (hw : w ∈ delayNames) (wl : Str) (hwl : String.ofList wl = w) (hsp : ' ' ∉ wl)
    (i : Int) (hnn : ¬ i < 0) :
    legalLine (wl ++ [' '] ++ intToStr i) = true := by
  rw [legalLine_arg w wl _ hwl hsp, intToStr_nonneg i hnn]
  have hd := natToStr_digits i.natAbs
  have hne : (natToStr i.natAbs).isEmpty = false := by
    cases h : natToStr i.natAbs with
    | nil => exact absurd h hd.2
    | cons _ _ => rfl
  simp only [delayNames, List.mem_cons, List.mem_nil_iff, or_false] at hw
  rcases hw with rfl | rfl | rfl <;> simp [legalArg, noArgKeys, modifiers, delayNames, hne, hd.1]

/-- the hook of DELAY / DEFAULT_DELAY accepts exactly the non-negative integers -/
theorem C02_delay_hook (c : ClsDesc) (hc : c.cname = "Delay" ∨ c.cname = "DefaultDelay") (hh : hasHook c "verify_arg" = true)
    (a : Arg) (hty : typeOk .int a.content = true) (hv : verifyArgHook c a = true) :
    ∃ i : Int, a.content = .int i ∧ ¬ i < 0 := by
  cases hcont : a.content with
  | int i =>
    refine ⟨i, rfl, ?_⟩
    unfold verifyArgHook at hv
    rcases hc with h | h <;> simp [hh, h, hcont] at hv <;> omega
  | flt m k => simp [typeOk, hcont] at hty
  | str s => simp [typeOk, hcont] at hty
  | bool b => simp [typeOk, hcont] at hty
  | list l => simp [typeOk, hcont] at hty

/-- keys that take no argument emit the bare name -/
theorem C02_noarg_legal (w : String) (hw : w ∈ noArgKeys) (wl : Str) (hwl : String.ofList wl = w) (hsp : ' ' ∉ wl) :
    legalLine wl = true := by
  rw [legalLine_bare w wl hwl hsp]
  simp [legalArg, hw]

/-- modifier + argument accepted by the hook: one character or a documented key.  `s` is what CTRL and
    SHIFT emit (as written), `upper s` what ALT emits for a key name. -/
theorem C02_modifier_legal (c : ClsDesc) (hmem : c ∈ Generated.palette)
    (hc : c.cname = "Alt" ∨ c.cname = "Ctrl" ∨ c.cname = "Shift")
    (hh : hasHook c "verify_arg" = true)
    (w : String) (hw : w ∈ c.names) (wl : Str) (hwl : String.ofList wl = w) (hsp : ' ' ∉ wl)
    (a : Arg) (s : Str) (hs : a.content = .str s) (hv : verifyArgHook c a = true) :
    legalLine (wl ++ [' '] ++ s) = true ∧
    ((paramsOf c).contains (upper s) = true → legalLine (wl ++ [' '] ++ upper s) = true) := by
  rw [legalLine_arg w wl _ hwl hsp, legalLine_arg w wl _ hwl hsp]
  have hstr : a.str = s := by simp [Arg.str, hs]
  -- a listed key (upper-cased) is a fixed point of `upper`
  have key_fix : ∀ ks : List String, (∀ k ∈ ks, k ∈ altKeys ++ ctrlKeys ++ shiftKeys) →
      (∀ k ∈ c.params, k ∈ ks) → (paramsOf c).contains (upper s) = true →
      String.ofList (upper s) ∈ ks ∧ String.ofList (upper (upper s)) ∈ ks := by
    intro ks hsub hk hin
    simp only [paramsOf, List.contains_iff_mem, List.mem_map] at hin
    obtain ⟨k, hk1, hk2⟩ := hin
    have hkk := hk k hk1
    have hfix := keys_are_upper k (hsub k hkk)
    rw [← hk2, hfix]
    simpa using hkk
  rcases hc with h | h | h
  · have hcov := List.all_eq_true.mp C02_spec_covers_code.1 c hmem
    simp only [h, bne_self_eq_false, Bool.false_or, Bool.and_eq_true, beq_iff_eq, List.all_eq_true, List.contains_iff_mem] at hcov
    obtain ⟨hn, hk⟩ := hcov
    rw [hn] at hw; simp at hw; subst hw
    have kf := key_fix altKeys (by intro k hk; simp [hk]) hk
    unfold verifyArgHook at hv
    simp only [hh, Bool.not_true, Bool.false_eq_true, if_false, h, hstr, Bool.or_eq_true, decide_eq_true_eq] at hv
    constructor
    · rcases hv with hv | hv
      · simp [legalArg, noArgKeys, modifiers, (kf hv).1]
      · simp [legalArg, noArgKeys, modifiers, hv]
    · intro hin; simp [legalArg, noArgKeys, modifiers, (kf hin).2]
  · have hcov := List.all_eq_true.mp C02_spec_covers_code.2.1 c hmem
    simp only [h, bne_self_eq_false, Bool.false_or, Bool.and_eq_true, beq_iff_eq, List.all_eq_true, List.contains_iff_mem] at hcov
    obtain ⟨hn, hk⟩ := hcov
    rw [hn] at hw; simp at hw
    have kf := key_fix ctrlKeys (by intro k hk; simp [hk]) hk
    unfold verifyArgHook at hv
    simp only [hh, Bool.not_true, Bool.false_eq_true, if_false, h, hstr, Bool.or_eq_true, decide_eq_true_eq] at hv
    constructor
    · rcases hv with hv | hv
      · rcases hw with rfl | rfl <;> simp [legalArg, noArgKeys, modifiers, (kf hv).1]
      · rcases hw with rfl | rfl <;> simp [legalArg, noArgKeys, modifiers, hv]
    · intro hin; rcases hw with rfl | rfl <;> simp [legalArg, noArgKeys, modifiers, (kf hin).2]
  · have hcov := List.all_eq_true.mp C02_spec_covers_code.2.2.1 c hmem
    simp only [h, bne_self_eq_false, Bool.false_or, Bool.and_eq_true, beq_iff_eq, List.all_eq_true, List.contains_iff_mem] at hcov
    obtain ⟨hn, hk⟩ := hcov
    rw [hn] at hw; simp at hw; subst hw
    have kf := key_fix shiftKeys (by intro k hk; simp [hk]) hk
    unfold verifyArgHook at hv
    simp only [hh, Bool.not_true, Bool.false_eq_true, if_false, h, hstr] at hv
    constructor
    · simp [legalArg, noArgKeys, modifiers, (kf hv).1]
    · intro hin; simp [legalArg, noArgKeys, modifiers, (kf hin).2]

/-- table check used by the class-level theorem -/
def delayClassOk : Bool :=
  Generated.palette.all fun c =>
    (c.cname != "Delay" && c.cname != "DefaultDelay") ||
      (c.argReq == .required && c.argType == .int && c.hooks.contains "verify_arg" && !c.hooks.contains "format_arg" &&
       c.names.all (delayNames.contains ·) && c.names.all (fun n => !n.toList.contains ' '))

theorem delayClass_facts : delayClassOk = true := by decide

/-- **DELAY / DEFAULT_DELAY, every delivery form**: whatever `SimpleCommand.compile` emits for these classes — the argument
    written inline, in a group, as first argument plus group, or `$`-evaluated from any expression (variables, parameters
    and loop counters included) — every emitted line is `NAME <non-negative integer literal>` -/
theorem C02_delay_class (child : Option ChildFn) (ctx : Ctx) (c : ClsDesc) (hmem : c ∈ Generated.palette)
    (hc : c.cname = "Delay" ∨ c.cname = "DefaultDelay") (word : Str) (line : Nat) (arg : Option Str) (block : Option (List Node))
    (st : St) (r : Out) (hname : String.ofList (upper (nameOf word)) ∈ c.names)
    (h : compileSimple child ctx c word line arg block st = .ok r) :
    ∀ l ∈ r.out, legalLine l = true := by
  have hfacts := List.all_eq_true.mp delayClass_facts c hmem
  have hcn : (c.cname != "Delay" && c.cname != "DefaultDelay") = false := by rcases hc with h | h <;> simp [h]
  simp only [hcn, Bool.false_or, Bool.and_eq_true, beq_iff_eq, List.all_eq_true, List.contains_iff_mem, Bool.not_eq_true',
    decide_eq_true_eq] at hfacts
  obtain ⟨⟨⟨⟨⟨hreq, hty⟩, hva⟩, hnf⟩, hnames⟩, hnosp⟩ := hfacts
  simp only [compileSimple, R.bind_eq_ok] at h
  obtain ⟨⟨name, items, st'⟩, hpre, hmulti⟩ := h
  obtain ⟨hnm, _, _, _, args, _, hitems, hreq', _, hargs⟩ := simplePre_spec ctx c word line arg block st name items st' hpre
  subst hnm
  have hw_delay := hnames _ hname
  have hsp : ' ' ∉ upper (nameOf word) := by
    have := hnosp _ hname
    simpa using this
  have hhf : hasHook c "format_arg" = false := hnf
  have hfmt : ∀ a : Arg, formatArg c a = a := by
    intro a; simp [formatArg, hhf]
  refine C02_multi_invariant (fun l => legalLine l = true) child ctx c (nameOf word) line items st' [] .normal r hmulti
    (by intro l hl; cases hl) ?_
  intro a ha stx rc hrc l hl
  -- items are the verified arguments (there is at least one: the argument is required)
  have hne : args ≠ [] := fun he => hreq' he hreq
  have hemp : args.isEmpty = false := by cases args <;> simp_all
  simp only [hitems, itemsOf, hemp, Bool.false_eq_true, if_false, List.mem_map] at ha
  obtain ⟨a0, ha0, rfl⟩ := ha
  obtain ⟨hty0, _, hv0⟩ := hargs a0 ha0
  rw [hty] at hty0
  obtain ⟨i, hi, hnn⟩ := C02_delay_hook c hc (by simp [hasHook, hva]) a0 hty0 hv0
  rw [hfmt] at hrc
  have hnr : (c.cname == "Run") = false := by rcases hc with h | h <;> simp [h]
  have hns : (c.cname == "Start") = false := by rcases hc with h | h <;> simp [h]
  simp only [runCompile, hnr, hns, Bool.and_false, Bool.false_eq_true, if_false] at hrc
  -- both classes emit through `defaultEmit`
  have hemit : ∀ ls, defaultEmit (nameOf word) (some a0) = .ok ls → ∀ l ∈ ls, legalLine l = true := by
    intro ls hls l hl
    simp only [defaultEmit, hi] at hls
    split at hls
    · cases hls
    · cases hls
      simp only [List.mem_singleton] at hl
      subst hl
      exact C02_delay_legal _ hw_delay (upper (nameOf word)) rfl hsp i hnn
  -- what `run_compile` hands back when it goes through `defaultEmit`
  have hvia : ∀ (stx' : St), (defaultEmit (nameOf word) (some a0) >>= fun ls => (R.ok { st := stx', out := ls, sig := some Sig.normal } : R RC)) = .ok rc →
      ∀ l ∈ rc.out, legalLine l = true := by
    intro stx' hb l hl
    cases hd : defaultEmit (nameOf word) (some a0) with
    | ok ls => rw [hd] at hb; simp only [R.bind_ok, R.ok.injEq] at hb; subst hb; exact hemit ls hd l hl
    | err e => rw [hd] at hb; cases hb
    | crash e => rw [hd] at hb; cases hb
    | oom w => rw [hd] at hb; cases hb
  unfold runCompileLocal at hrc
  simp only [] at hrc
  split at hrc
  · exact hvia _ hrc l hl
  · rcases hc with hcd | hcd
    · simp only [hcd] at hrc
      exact hvia _ hrc l hl
    · simp only [hcd] at hrc
      split at hrc
      · simp [raise] at hrc
      · exact hvia _ hrc l hl

end Duckling.Props.C02
