import Duckling.Model.Compile
import Duckling.Spec.Ducky
import Duckling.Lemmas.SimplePre
import Duckling.Lemmas.Digits
import Duckling.Lemmas.LegalBase
import Duckling.Lemmas.Legal
import Duckling.Lemmas.Plain
/-
  C02 — validated commands never emit an illegal line.

  `Spec.legalLine` (frozen, from the documented line language; Spec/Ducky.lean) says which lines are legal for the commands
  DucklingScript validates.  Helper lemmas are in Lemmas/LegalBase and Lemmas/Legal; the generic invariant walk in Lemmas/Hered.

  * `C02_spec_covers_code`      names, accepted keys, argument types and hooks of the validating classes are the documented ones
                                 (table facts, re-checked against the regenerated palette on every run);
  * `C02_multi_invariant`       every line `__multi_comp` emits satisfies `P` if every single `run_compile` call's lines do;
  * `C02_line_arg` / `_bare`    an output line is judged by the argument grammar of its first word;
  * `C02_delay_legal` / `C02_delay_hook` / `C02_noarg_legal` / `C02_modifier_legal`   the per-family facts;
  * `C02_delay_class`           DELAY / DEFAULT_DELAY through `SimpleCommand.compile`, every delivery form;
  * `C02_every_emission_legal`  **every simple class of the palette and the unknown-command pass-through, every delivery form**
                                 (inline, grouped, first argument + group, `$`-evaluated — hence variables, parameters, loop
                                 counters): whatever `simplePre` accepted, each line the command emits by itself is legal.
                                 Proving it exposed `$ALTCHAR " 12"` → `ALTCHAR  12` in the code (repaired: fix: 34e4a37);
  * `C02_exec_output_legal`     **whole programs**: if no line of the code that can run (program, functions in the environment,
                                 files on disk) is an IGNORE line, every output line of a successful run is legal — any depth,
                                 context, state (hereditary walk over the whole interpreter);
  * `C02_compile_output_legal`  the same for `Compiler.compile`.
  * `C02_no_duckling_keyword`   the third sentence: if every command line of the code that can run is a KNOWN command (so no
                                 unknown-command warning can be raised) and none is IGNORE, no output line starts with a
                                 DucklingScript-only keyword or a `$` (`Spec.plainLine`); `C02_compile_no_duckling_keyword` for
                                 `Compiler.compile`.  (The hypothesis "every line is known" is stronger than "no warning was raised":
                                 a program with an unknown command that is never reached is covered by the oracle only.)
-/
namespace Duckling.Props.C02
open Duckling Duckling.Spec Duckling.Legal

/-- table checks (definitions in Lemmas/LegalBase): names and accepted keys of the modifier classes are documented ones;
    the other validated classes have the documented names, argument types and hooks -/
theorem C02_spec_covers_code :
    altTableOk = true ∧ ctrlTableOk = true ∧ shiftTableOk = true ∧ guiTableOk = true ∧ validatedTableOk = true :=
  spec_covers_code

/-- every line `__multi_comp` emits satisfies `P` if the lines of every `run_compile` call do -/
theorem C02_multi_invariant (P : Str → Prop) (child : Option ChildFn) (ctx : Ctx) (c : ClsDesc) (name : Str) (line : Nat)
    (items : List (Option Arg)) (st : St) (out : List Str) (sig : Sig) (r : Out)
    (h : multiComp child ctx c name line items st out sig = .ok r) (hout : ∀ l ∈ out, P l)
    (hsite : ∀ a ∈ items, ∀ st rc, runCompile child ctx c name line a st = .ok rc → ∀ l ∈ rc.out, P l) :
    ∀ l ∈ r.out, P l := by
  induction items generalizing st out sig with
  | nil => simp only [multiComp] at h; cases h; exact hout
  | cons a rest ih =>
    simp only [multiComp, R.bind_eq_ok] at h
    obtain ⟨rc, hrc, h⟩ := h
    apply ih _ _ _ h
    · intro l hl
      rcases List.mem_append.mp hl with hl | hl
      · exact hout l hl
      · exact hsite a (by simp) st rc hrc l hl
    · intro a' ha'; exact hsite a' (List.mem_cons_of_mem _ ha')

/-- an output line `WORD arg` is judged by the argument grammar of `WORD` -/
theorem C02_line_arg (w : String) (wl content : Str) (hwl : String.ofList wl = w) (hsp : ' ' ∉ wl) :
    legalLine (wl ++ [' '] ++ content) = legalArg w (some content) := legalLine_arg w wl content hwl hsp

theorem C02_line_bare (w : String) (wl : Str) (hwl : String.ofList wl = w) (hsp : ' ' ∉ wl) :
    legalLine wl = legalArg w none := legalLine_bare w wl hwl hsp

/-- DELAY / DEFAULT_DELAY: a verified integer argument prints as a non-negative integer literal -/
theorem C02_delay_legal (w : String) (hw : w ∈ delayNames) (wl : Str) (hwl : String.ofList wl = w) (hsp : ' ' ∉ wl)
    (i : Int) (hnn : ¬ i < 0) : legalLine (wl ++ [' '] ++ intToStr i) = true := delay_legal w hw wl hwl hsp i hnn

theorem C02_delay_hook (c : ClsDesc) (hc : c.cname = "Delay" ∨ c.cname = "DefaultDelay") (hh : hasHook c "verify_arg" = true)
    (a : Arg) (hty : typeOk .int a.content = true) (hv : verifyArgHook c a = true) :
    ∃ i : Int, a.content = .int i ∧ ¬ i < 0 := delay_hook c hc hh a hty hv

theorem C02_noarg_legal (w : String) (hw : w ∈ noArgKeys) (wl : Str) (hwl : String.ofList wl = w) (hsp : ' ' ∉ wl) :
    legalLine wl = true := noarg_legal w hw wl hwl hsp

/-- modifier + argument accepted by the hook: one character or a documented key.  `s` is what CTRL and
    SHIFT emit (as written), `upper s` what ALT emits for a key name. -/
theorem C02_modifier_legal (c : ClsDesc) (hmem : c ∈ Generated.palette)
    (hc : c.cname = "Alt" ∨ c.cname = "Ctrl" ∨ c.cname = "Shift")
    (hh : hasHook c "verify_arg" = true)
    (w : String) (hw : w ∈ c.names) (wl : Str) (hwl : String.ofList wl = w) (hsp : ' ' ∉ wl)
    (a : Arg) (s : Str) (hs : a.content = .str s) (hv : verifyArgHook c a = true) :
    legalLine (wl ++ [' '] ++ s) = true ∧
    ((paramsOf c).contains (upper s) = true → legalLine (wl ++ [' '] ++ upper s) = true) :=
  modifier_legal c hmem hc hh w hw wl hwl hsp a s hs hv

/-- table check used by the class-level theorem -/
def delayClassOk : Bool :=
  Generated.palette.all fun c =>
    (c.cname != "Delay" && c.cname != "DefaultDelay") ||
      (c.argReq == .required && c.argType == .int && c.hooks.contains "verify_arg" && !c.hooks.contains "format_arg" &&
       c.names.all (delayNames.contains ·) && c.names.all (fun n => !n.toList.contains ' '))

theorem delayClass_facts : delayClassOk = true := by decide

/-- **DELAY / DEFAULT_DELAY, every delivery form**: whatever `SimpleCommand.compile` emits for these classes — the argument
    written inline, in a group, as first argument plus group, or `$`-evaluated from any expression (variables, parameters
    and loop counters included) — every emitted line is `NAME <non-negative integer literal>` -/
theorem C02_delay_class (child : Option ChildFn) (ctx : Ctx) (c : ClsDesc) (hmem : c ∈ Generated.palette)
    (hc : c.cname = "Delay" ∨ c.cname = "DefaultDelay") (word : Str) (line : Nat) (arg : Option Str) (block : Option (List Node))
    (st : St) (r : Out) (hname : String.ofList (upper (nameOf word)) ∈ c.names)
    (h : compileSimple child ctx c word line arg block st = .ok r) :
    ∀ l ∈ r.out, legalLine l = true := by
  have hfacts := List.all_eq_true.mp delayClass_facts c hmem
  have hcn : (c.cname != "Delay" && c.cname != "DefaultDelay") = false := by rcases hc with h | h <;> simp [h]
  simp only [hcn, Bool.false_or, Bool.and_eq_true, beq_iff_eq, List.all_eq_true, List.contains_iff_mem, Bool.not_eq_true',
    decide_eq_true_eq] at hfacts
  obtain ⟨⟨⟨⟨⟨hreq, hty⟩, hva⟩, hnf⟩, hnames⟩, hnosp⟩ := hfacts
  simp only [compileSimple, R.bind_eq_ok] at h
  obtain ⟨⟨name, items, st'⟩, hpre, hmulti⟩ := h
  obtain ⟨hnm, _, _, _, args, _, hitems, hreq', _, hargs⟩ := simplePre_spec ctx c word line arg block st name items st' hpre
  subst hnm
  have hw_delay := hnames _ hname
  have hsp : ' ' ∉ upper (nameOf word) := by
    have := hnosp _ hname
    simpa using this
  have hhf : hasHook c "format_arg" = false := hnf
  have hfmt : ∀ a : Arg, formatArg c a = a := by
    intro a; simp [formatArg, hhf]
  refine C02_multi_invariant (fun l => legalLine l = true) child ctx c (nameOf word) line items st' [] .normal r hmulti
    (by intro l hl; cases hl) ?_
  intro a ha stx rc hrc l hl
  -- items are the verified arguments (there is at least one: the argument is required)
  have hne : args ≠ [] := fun he => hreq' he hreq
  have hemp : args.isEmpty = false := by cases args <;> simp_all
  simp only [hitems, itemsOf, hemp, Bool.false_eq_true, if_false, List.mem_map] at ha
  obtain ⟨a0, ha0, rfl⟩ := ha
  obtain ⟨hty0, _, hv0⟩ := hargs a0 ha0
  rw [hty] at hty0
  obtain ⟨i, hi, hnn⟩ := delay_hook c hc (by simp [hasHook, hva]) a0 hty0 hv0
  rw [hfmt] at hrc
  have hnr : (c.cname == "Run") = false := by rcases hc with h | h <;> simp [h]
  have hns : (c.cname == "Start") = false := by rcases hc with h | h <;> simp [h]
  simp only [runCompile, hnr, hns, Bool.and_false, Bool.false_eq_true, if_false] at hrc
  -- both classes emit through `defaultEmit`
  have hemit : ∀ ls, defaultEmit (nameOf word) (some a0) = .ok ls → ∀ l ∈ ls, legalLine l = true := by
    intro ls hls l hl
    simp only [defaultEmit, hi] at hls
    split at hls
    · cases hls
    · cases hls
      simp only [List.mem_singleton] at hl
      subst hl
      exact delay_legal _ hw_delay (upper (nameOf word)) rfl hsp i hnn
  -- what `run_compile` hands back when it goes through `defaultEmit`
  have hvia : ∀ (stx' : St), (defaultEmit (nameOf word) (some a0) >>= fun ls => (R.ok { st := stx', out := ls, sig := some Sig.normal } : R RC)) = .ok rc →
      ∀ l ∈ rc.out, legalLine l = true := by
    intro stx' hb l hl
    cases hd : defaultEmit (nameOf word) (some a0) with
    | ok ls => rw [hd] at hb; simp only [R.bind_ok, R.ok.injEq] at hb; subst hb; exact hemit ls hd l hl
    | err e => rw [hd] at hb; cases hb
    | crash e => rw [hd] at hb; cases hb
    | oom w => rw [hd] at hb; cases hb
  unfold runCompileLocal at hrc
  simp only [] at hrc
  split at hrc
  · exact hvia _ hrc l hl
  · rcases hc with hcd | hcd
    · simp only [hcd] at hrc
      exact hvia _ hrc l hl
    · simp only [hcd] at hrc
      split at hrc
      · simp [raise] at hrc
      · exact hvia _ hrc l hl


/-- **every simple command, every delivery form**: whatever line a command of the palette — or an unknown command passed
    through — emits by itself (inline, grouped, first argument + group, `$`-evaluated from any expression: variables,
    parameters and loop counters included) is a legal line of the documented language -/
theorem C02_every_emission_legal (ctx : Ctx) (content word : Str) (arg : Option Str) (block : Option (List Node)) (cl : ClsDesc)
    (hsplit : splitWs1 content = some (word, arg))
    (hd : (dispatch word (hasBlockOf block) = some cl ∧ cl.isBlock = false) ∨
          (dispatch word (hasBlockOf block) = none ∧ cl = Generated.generic))
    (line : Nat) (st : St) (name : Str) (items : List (Option Arg)) (st' : St)
    (hpre : simplePre ctx cl word line arg block st = .ok (name, items, st'))
    (a : Option Arg) (ha : a ∈ items) (st2 : St) (rc : RC) (hrc : runCompileLocal ctx cl name line a st2 = .ok rc) :
    ∀ l ∈ rc.out, legalLine l = true :=
  emit_legal ctx content word arg block cl hsplit hd line st name items st' hpre a ha st2 rc hrc

/-- **whole programs**: if no command line of the code that can run — the program, the bodies of the functions already in the
    environment, the files on disk — is an IGNORE line (or blank), then for EVERY depth, context and state every output line
    of a successful run is legal -/
theorem C02_exec_output_legal (d : Nat) (nodes : List Node) (ctx : Ctx) (st : St) (o : Out)
    (hnodes : allLinesL noIgnoreLine nodes = true) (hst : ∀ c ∈ st.codes, allLinesL noIgnoreLine c = true)
    (hfs : ∀ p text nodes, ctx.fs.read p = some text → parseLines (splitLines text) = .ok nodes → allLinesL noIgnoreLine nodes = true)
    (h : exec d nodes ctx st = .ok o) : ∀ l ∈ o.out, legalLine l = true := by
  have cv : ∀ c, allCmdsL niq c = allLinesL noIgnoreLine c := fun c => allCmdsL_text noIgnoreLine c
  exact (exec_hereditary hspec_legal d nodes ctx st (by rw [cv]; exact hnodes) (fun c hc => by rw [cv]; exact hst c hc)
    (fun p text nodes hr hp => by rw [cv]; exact hfs p text nodes hr hp) trivial).outs o h

/-- `Compiler.compile`: a program without IGNORE lines (in the source and in the files it can import) compiles to legal lines only -/
theorem C02_compile_output_legal (opts : Opts) (fs : FS) (file : Option Path) (src : Source)
    (out : List Str) (warns : List Warn) (prints : List Print) (vars : List (Str × Val))
    (hsrc : ∀ nodes, prepare src = .ok nodes → allLinesL noIgnoreLine nodes = true)
    (hfs : ∀ p text nodes, fs.read p = some text → parseLines (splitLines text) = .ok nodes → allLinesL noIgnoreLine nodes = true)
    (h : compile opts fs file src = .ok out warns prints vars) : ∀ l ∈ out, legalLine l = true := by
  unfold compile at h
  split at h
  · cases h
  · cases h
  · rename_i nodes hn
    simp only [] at h
    split at h
    · rename_i r hr
      simp only [Result.ok.injEq] at h
      obtain ⟨rfl, _, _, _⟩ := h
      refine C02_exec_output_legal _ nodes _ _ r (hsrc nodes hn) ?_ hfs hr
      intro c hc
      unfold initEnv at hc
      split at hc <;> simp [St.codes] at hc
    · cases h
    · cases h
    · cases h

/-- **no DucklingScript-only word in the output**: every command line known and none IGNORE, in all the code that can run -/
theorem C02_no_duckling_keyword (d : Nat) (nodes : List Node) (ctx : Ctx) (st : St) (o : Out)
    (hnodes : allCmdsL knownLine nodes = true) (hst : StOk knownLine st) (hfs : FSOk knownLine ctx.fs)
    (h : exec d nodes ctx st = .ok o) : ∀ l ∈ o.out, plainLine l = true :=
  (exec_hereditary hspec_plain d nodes ctx st hnodes hst hfs trivial).outs o h

theorem C02_compile_no_duckling_keyword (opts : Opts) (fs : FS) (file : Option Path) (src : Source)
    (out : List Str) (warns : List Warn) (prints : List Print) (vars : List (Str × Val))
    (hsrc : ∀ nodes, prepare src = .ok nodes → allCmdsL knownLine nodes = true) (hfs : FSOk knownLine fs)
    (h : compile opts fs file src = .ok out warns prints vars) : ∀ l ∈ out, plainLine l = true := by
  unfold compile at h
  split at h
  · cases h
  · cases h
  · rename_i nodes hn
    simp only [] at h
    split at h
    · rename_i r hr
      simp only [Result.ok.injEq] at h
      obtain ⟨rfl, _, _, _⟩ := h
      refine C02_no_duckling_keyword _ nodes _ _ r (hsrc nodes hn) ?_ hfs hr
      intro c hc
      unfold initEnv at hc
      split at hc <;> simp [St.codes] at hc
    · cases h
    · cases h
    · cases h

/-- non-vacuity: a program with a function, a loop and validated commands satisfies the hypothesis -/
example : allLinesL noIgnoreLine
    [.line ⟨"FUNC f p".toList, 1⟩, .block [.line ⟨"$DELAY p".toList, 2⟩], .line ⟨"REPEAT 2".toList, 3⟩,
     .block [.line ⟨"RUN f 5".toList, 4⟩, .line ⟨"ctrl esc".toList, 5⟩]] = true := by decide

/-- an IGNORE line does not -/
example : allLinesL noIgnoreLine [.line ⟨"ignore".toList, 1⟩, .block [.line ⟨"DELAY x".toList, 2⟩]] = false := by decide

/-- non-vacuity of the "every line is a known command" hypothesis; an IF without a block is not a known command -/
example : allCmdsL knownLine
    [.line ⟨"VAR a 5".toList, 1⟩, .line ⟨"IF a == 5".toList, 2⟩,
     .block [.line ⟨"$STRING a".toList, 3⟩, .line ⟨"ctrl esc".toList, 4⟩]] = true := by
  simp only [allCmdsL_line, allCmdsL_block, allCmdsL_nil]; decide +kernel

example : allCmdsL knownLine [.line ⟨"IF a == 5".toList, 2⟩] = false := by
  simp only [allCmdsL_line, allCmdsL_nil]; decide +kernel

end Duckling.Props.C02
