import Duckling.Model.Compile
import Duckling.Lemmas.TabRound
import Duckling.Lemmas.TabSound
/-
  C03 — indentation alone determines block structure.

  Proved about `parse_document` (`parseFuel` / `stepLine`), for every line, state and indent unit:
  * `C03_blank_ignored`          a blank or whitespace-only line changes nothing in the parser state (only the numbers of
                                  the lines after it differ — numbers are assigned before parsing, `C03_numbers`);
  * `C03_numbers`                every line is numbered with its 1-based position in the source;
  * `C03_reject_first`           a code line that is indented with no code line before it in its block is a tab error naming that line
                                  — also after any number of blank lines (the `fix:`), and also for a line more than one level deeper
                                  than the line before it (it is the first line of the nested block it would open);
  * `C03_reject_nonmultiple`     once the unit is known, a line whose leading whitespace does not start with the unit is a tab
                                  error naming that line (half units, mixed units, a dedent to a non-level);
  * `C03_unit_discovered`        the unit is the whole leading whitespace of the first indented line — any non-empty string of spaces and tabs;
  * `C03_indented_line_kept`     an indented line goes, with exactly one unit removed, into the pending block of the line
                                  before it: no code line is dropped; `C03_code_line_kept` an unindented line is appended after the
                                  pending block (which is parsed recursively and attached to the preceding line);
  * `C03_list_form`              the nested-list input form bypasses the parser: its tree is the given tree.
  * `C03_roundtrip`              **the round trip**: for every block tree (any depth, any size) whose lines are not blank, do not start
                                  with a blank and are not triple-quote lines, every indent unit that is a non-empty string of spaces and
                                  tabs, every numbering of the lines, and blank / whitespace-only lines inserted anywhere: if the non-blank
                                  lines of the text are the rendering of the tree, `parse_document` returns exactly that tree (`toNodes`),
                                  each line carrying the number it had in the text.  Hence the tree does not depend on the unit or on the
                                  blank lines (`C03_unit_and_blank_independent`), and no code line is dropped or attached elsewhere;
  * `C03_no_line_dropped`        **soundness on ANY text** (not only renderings of a tree; `Lemmas/TabSound`, invariant over the line loop and
                                  induction over the recursion): whenever `parse_document` succeeds, the code lines of the returned tree,
                                  read in document order, carry source line numbers in strictly the source order (a sublist of 1, 2, …, n:
                                  no line invented, duplicated or moved before an earlier one), and EVERY source line that is not blank and
                                  is not a triple-quote line (after its indentation) is among them — no code line is silently dropped,
                                  whatever the indentation looks like, verbatim regions included;
  * `C03_line_text_kept`         and the TEXT of every line of the tree is the text of the source line with that number from some position on,
                                  everything before that position being white space: the parser never alters, joins or splits a line's text
                                  (ANY input; composition of the one-unit-per-level stripping through the recursion);
  * `C03_text_roundtrip`         the same for `Compiler.compile(text)`: numbers are the 1-based positions in the text.
  The verbatim (triple-quote) form and the exact error for every ill-indented text (beyond the two rejection
  theorems above) are validated by the correspondence.
-/
namespace Duckling.Props.C03
open Duckling

theorem C03_blank_ignored (rec : ParseFn) (count : Nat) (l : PreLine) (st : PState) (hb : isBlank l.content = true) :
    stepLine rec count l st = .ok st := by
  simp [stepLine, hb]

theorem C03_numbers (lines : List Str) (i : Nat) (hi : i < lines.length) :
    (numberLines lines)[i]? = some ⟨lines[i], i + 1⟩ := by
  simp [numberLines, hi]

theorem C03_reject_first (rec : ParseFn) (count : Nat) (l : PreLine) (st : PState) (t : HasTab)
    (hnb : isBlank l.content = false) (hq : startsWith tripleQuote l.content = false) (hfree : st.free = 0)
    (hseen : st.seen = false) (htab : hasTab l.content st.tab l.num = .ok t) (ht : t ≠ .no) :
    stepLine rec count l st = .error (.tab l.num) := by
  cases t with
  | no => exact absurd rfl ht
  | yes => simp [stepLine, hnb, hq, hfree, hseen, htab]
  | discovered d => simp [stepLine, hnb, hq, hfree, hseen, htab]

theorem C03_reject_nonmultiple (s unit : Str) (n : Nat) (c : Char) (rest : Str)
    (hs : s = c :: rest) (hsp : isSpace c = true) (hnot : startsWith unit s = false) :
    hasTab s (some unit) n = .error (.tab n) := by
  subst hs
  simp [hasTab, hnot, hsp]

theorem C03_unit_discovered (s : Str) (n : Nat) (c : Char) (rest : Str) (hs : s = c :: rest) (hc : c = ' ' ∨ c = '\t') :
    hasTab s none n = .ok (.discovered (s.takeWhile isSpace)) := by
  rcases hc with rfl | rfl <;> simp [hasTab, hs]

theorem C03_known_unit (s unit : Str) (n : Nat) (h : startsWith unit s = true) : hasTab s (some unit) n = .ok .yes := by
  simp [hasTab, h]

theorem C03_indented_line_kept (rec : ParseFn) (count : Nat) (l : PreLine) (st : PState) (unit : Str)
    (hnb : isBlank l.content = false) (hq : startsWith tripleQuote l.content = false) (hfree : st.free = 0)
    (hseen : st.seen = true) (htab : st.tab = some unit) (hstarts : startsWith unit l.content = true) :
    stepLine rec count l st =
      .ok { st with conv := ⟨l.content.drop unit.length, l.num⟩ :: st.conv } := by
  have : hasTab l.content (some unit) l.num = .ok .yes := C03_known_unit _ _ _ hstarts
  simp [stepLine, hnb, hq, hfree, hseen, htab, this]

theorem C03_code_line_kept (rec : ParseFn) (count : Nat) (l : PreLine) (st : PState)
    (hnb : isBlank l.content = false) (hq : startsWith tripleQuote l.content = false) (hfree : st.free = 0)
    (htab : hasTab l.content st.tab l.num = .ok .no) :
    stepLine rec count l st =
      (if st.conv.isEmpty then .ok { st with seen := true, ret := .line l :: st.ret }
       else match rec st.conv.reverse st.tab with
         | .error e => .error e
         | .ok b => .ok { st with seen := true, conv := [], ret := .line l :: .block b :: st.ret }) := by
  simp only [stepLine, hnb, hq, hfree, htab, Bool.false_eq_true, if_false, Bool.false_and, bne_self_eq_false]
  split <;> rfl

/-- the round trip of the indentation parser -/
theorem C03_roundtrip (u : Str) (hu : GoodUnit u) (f : List NT) (hg : GoodForest f) (pls : List PreLine)
    (hrender : pls.filter (fun l => !isBlank l.content) = lines u 0 f) :
    parseFuel (pls.length + 1) pls none = .ok (toNodes f) :=
  parse_roundtrip u hu f hg pls hrender

/-- for source text: the lines are numbered by position, then parsed -/
theorem C03_text_roundtrip (u : Str) (hu : GoodUnit u) (f : List NT) (hg : GoodForest f) (texts : List Str)
    (hrender : (numberLines texts).filter (fun l => !isBlank l.content) = lines u 0 f) :
    parseLines texts = .ok (toNodes f) := by
  unfold parseLines
  exact parse_roundtrip u hu f hg (numberLines texts) hrender

/-- two renderings of the same tree — different units, different blank lines — parse to the same tree -/
theorem C03_unit_and_blank_independent (u u' : Str) (hu : GoodUnit u) (hu' : GoodUnit u') (f : List NT) (hg : GoodForest f)
    (pls pls' : List PreLine)
    (h1 : pls.filter (fun l => !isBlank l.content) = lines u 0 f)
    (h2 : pls'.filter (fun l => !isBlank l.content) = lines u' 0 f) :
    parseFuel (pls.length + 1) pls none = parseFuel (pls'.length + 1) pls' none := by
  rw [parse_roundtrip u hu f hg pls h1, parse_roundtrip u' hu' f hg pls' h2]

theorem C03_list_form (t : List RawTree) : prepare (.tree t) = .ok (convertRecur t 0) := rfl

/-- **no code line is ever silently dropped, invented or reordered** — for ANY source text on which the parser succeeds -/
theorem C03_no_line_dropped (lines : List Str) (nodes : List Node) (h : parseLines lines = .ok nodes) :
    (nums (flatL nodes)).Sublist ((List.range lines.length).map (· + 1)) ∧
    ∀ l ∈ numberLines lines, keepLine l → l.num ∈ nums (flatL nodes) := by
  have := parseLines_sound lines nodes h
  rw [nums_numberLines] at this
  exact this

/-- non-vacuity: an indented command line is a line that must be kept; a blank line and a triple-quote line are not -/
example : keepLine ⟨"    STRING a".toList, 2⟩ ∧ ¬ keepLine ⟨"   ".toList, 3⟩ ∧ ¬ keepLine ⟨"  \"\"\"".toList, 4⟩ := by
  refine ⟨⟨by decide, by decide⟩, fun h => ?_, fun h => ?_⟩
  · exact absurd h.1 (by decide)
  · exact absurd h.2 (by decide)

/-- **the text of a line is never altered**: every line of the tree is the source line with that number, minus leading white space -/
theorem C03_line_text_kept (lines : List Str) (nodes : List Node) (h : parseLines lines = .ok nodes) :
    ∀ l' ∈ flatL nodes, ∃ l ∈ numberLines lines, l.num = l'.num ∧
      ∃ k, l'.content = l.content.drop k ∧ ∀ c ∈ l.content.take k, isSpace c = true :=
  parseLines_content lines nodes h

end Duckling.Props.C03
