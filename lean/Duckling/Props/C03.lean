import Duckling.Model.Compile
/-
  C03 — indentation alone determines block structure.

  Proved about `parse_document` (`parseFuel` / `stepLine`), for every line, state and indent unit:
  * `C03_blank_ignored`          a blank or whitespace-only line changes nothing in the parser state (only the numbers of
                                  the lines after it differ — numbers are assigned before parsing, `C03_numbers`);
  * `C03_numbers`                every line is numbered with its 1-based position in the source;
  * `C03_reject_first`           a code line that is indented with no code line before it in its block is a tab error naming that line
                                  — also after any number of blank lines (the `fix:`), and also for a line more than one level deeper
                                  than the line before it (it is the first line of the nested block it would open);
  * `C03_reject_nonmultiple`     once the unit is known, a line whose leading whitespace does not start with the unit is a tab
                                  error naming that line (half units, mixed units, a dedent to a non-level);
  * `C03_unit_discovered`        the unit is the whole leading whitespace of the first indented line — any non-empty string of spaces and tabs;
  * `C03_indented_line_kept`     an indented line goes, with exactly one unit removed, into the pending block of the line
                                  before it: no code line is dropped; `C03_code_line_kept` an unindented line is appended after the
                                  pending block (which is parsed recursively and attached to the preceding line);
  * `C03_list_form`              the nested-list input form bypasses the parser: its tree is the given tree.
  The round-trip theorem (parse (render u b t) = t for every tree, unit and blank-line placement) is not yet
  proved; that statement is validated by the correspondence on random trees in 11 units — `partial`.
-/
namespace Duckling.Props.C03
open Duckling

theorem C03_blank_ignored (rec : ParseFn) (count : Nat) (l : PreLine) (st : PState) (hb : isBlank l.content = true) :
    stepLine rec count l st = .ok st := by
  simp [stepLine, hb]

theorem C03_numbers (lines : List Str) (i : Nat) (hi : i < lines.length) :
    (numberLines lines)[i]? = some ⟨lines[i], i + 1⟩ := by
  simp [numberLines, hi]

theorem C03_reject_first (rec : ParseFn) (count : Nat) (l : PreLine) (st : PState) (t : HasTab)
    (hnb : isBlank l.content = false) (hq : startsWith tripleQuote l.content = false) (hfree : st.free = 0)
    (hseen : st.seen = false) (htab : hasTab l.content st.tab l.num = .ok t) (ht : t ≠ .no) :
    stepLine rec count l st = .error (.tab l.num) := by
  cases t with
  | no => exact absurd rfl ht
  | yes => simp [stepLine, hnb, hq, hfree, hseen, htab]
  | discovered d => simp [stepLine, hnb, hq, hfree, hseen, htab]

theorem C03_reject_nonmultiple (s unit : Str) (n : Nat) (c : Char) (rest : Str)
    (hs : s = c :: rest) (hsp : isSpace c = true) (hnot : startsWith unit s = false) :
    hasTab s (some unit) n = .error (.tab n) := by
  subst hs
  simp [hasTab, hnot, hsp]

theorem C03_unit_discovered (s : Str) (n : Nat) (c : Char) (rest : Str) (hs : s = c :: rest) (hc : c = ' ' ∨ c = '\t') :
    hasTab s none n = .ok (.discovered (s.takeWhile isSpace)) := by
  rcases hc with rfl | rfl <;> simp [hasTab, hs]

theorem C03_known_unit (s unit : Str) (n : Nat) (h : startsWith unit s = true) : hasTab s (some unit) n = .ok .yes := by
  simp [hasTab, h]

theorem C03_indented_line_kept (rec : ParseFn) (count : Nat) (l : PreLine) (st : PState) (unit : Str)
    (hnb : isBlank l.content = false) (hq : startsWith tripleQuote l.content = false) (hfree : st.free = 0)
    (hseen : st.seen = true) (htab : st.tab = some unit) (hstarts : startsWith unit l.content = true) :
    stepLine rec count l st =
      .ok { st with conv := ⟨l.content.drop unit.length, l.num⟩ :: st.conv } := by
  have : hasTab l.content (some unit) l.num = .ok .yes := C03_known_unit _ _ _ hstarts
  simp [stepLine, hnb, hq, hfree, hseen, htab, this]

theorem C03_code_line_kept (rec : ParseFn) (count : Nat) (l : PreLine) (st : PState)
    (hnb : isBlank l.content = false) (hq : startsWith tripleQuote l.content = false) (hfree : st.free = 0)
    (htab : hasTab l.content st.tab l.num = .ok .no) :
    stepLine rec count l st =
      (if st.conv.isEmpty then .ok { st with seen := true, ret := .line l :: st.ret }
       else match rec st.conv.reverse st.tab with
         | .error e => .error e
         | .ok b => .ok { st with seen := true, conv := [], ret := .line l :: .block b :: st.ret }) := by
  simp only [stepLine, hnb, hq, hfree, htab, Bool.false_eq_true, if_false, Bool.false_and, bne_self_eq_false]
  split <;> rfl

theorem C03_list_form (t : List RawTree) : prepare (.tree t) = .ok (convertRecur t 0) := rfl

end Duckling.Props.C03
