import Duckling.Model.Expr
import Duckling.Lemmas.Prec
import Duckling.Lemmas.RBasic
import Duckling.Lemmas.LexDigits
import Duckling.Lemmas.LexName
import Duckling.Lemmas.LexFlat
import Duckling.Lemmas.LexFlatB
import Duckling.Lemmas.LexExpr
import Duckling.Lemmas.EvalGroup
import Duckling.Lemmas.NoFuel
/-
  C04 — expressions evaluate with the documented precedence and typing.

  Stage A (tree building) is proved for sequences of any length:
  * `C04_ranks_documented`      the operator table regenerated from the source is the documented one
                                 (`^` ≻ `* / // %` ≻ `+ -` ≻ six comparisons ≻ `,`), visited tightest first;
  * `C04_ranks_disjoint`, `C04_every_operator_ranked`   table facts the theorem needs, re-checked on every run;
  * `C04_build`                 the rank-by-rank left-to-right reduction of `__build_parse_trees` equals the
                                 reference grammar `refL` (split at the loosest rank, parse the segments with the
                                 tighter ranks, fold left-associatively) and leaves nothing unreduced;
  Stage C (values), for every operand:
  * `C04_div_zero`              `/`, `//`, `%` by a zero right operand are DivideByZeroError, whatever the left number;
  * `C04_concat`                `+` concatenates when either side is a string (the other side printed as Python prints it);
  * `C04_int_arith`             on integers `+ - * // %` are the integer operations (floor division and modulo);
  * `C04_comparisons`           the six comparisons on integers;
  * `C04_integral_is_int`       an integral float is normalised to an integer at every parenthesis level;
  * `C04_not`                   `!( )` yields the negated truth value of what the parenthesised text evaluates to.
  Stage B (the character scanner), first theorems — the scanner is a character-level state machine with back-tracking
  (`Lexer.lean`); proved by induction over its character loop:
  * `C04_lex_digits`            a non-empty string of decimal digits of ANY length is scanned into exactly one number token carrying
                                 that text, whatever variable names are in scope (the string class declines the first digit, the number
                                 class takes it, every further digit extends the token, the end of the text closes it);
  * `C04_tokenize_digits`       and evaluates to the integer the digits denote (leading zeros included) — `Tokenizer.tokenize` end to end.
  * `C04_lex_name`              a variable name that is in scope (first letter not T/F), standing alone, is scanned into exactly one Variable
                                 token whatever other names are in scope — prefixes and extensions of it included (the keyword matcher's
                                 candidate-set invariant; see C20_readable);
  * `C04_flat_tokens`           **flat arithmetic of any length** — an unsigned number followed by any number of (operator, unsigned number)
                                 pairs, written without blanks or parentheses, over all fourteen operators (`12+3*4`, `10//3-1`, `1<=2`, `7,8,9`) —
                                 is scanned into exactly the alternating list of number and operator tokens.  Where an operator is a prefix of
                                 another (`/` `//`, `<` `<=`, `>` `>=`) the keyword matcher reads on and decides at the next character; a number is
                                 closed by the operator's first character, which is then scanned again as an operator.  One lemma per kind of token,
                                 each for the scanner standing anywhere in the text (`Steps`), composed by induction over the pairs;
  * `C04_flat_blanks`           **spacing**: blanks (any white-space characters, any number) before the first number, before and after every
                                 operator and after the last number change nothing — the scanner produces exactly the tokens of the expression
                                 written without blanks (`C04_layout_independent`), for flat arithmetic of any length;
  * `C04_flat_value`            **end to end**: `Tokenizer.tokenize` of such a text is the evaluation of the reference precedence parse (`refL`,
                                 Stage A) of those tokens — scanner, tree builder and evaluator composed.
  * `C04_lex_expr`              **flat expressions over every kind of leaf value** — unsigned numbers, variable names (ANY set of names in
                                 scope, prefixes of one another included; first letter not T/F), TRUE / FALSE, string literals (any text without a
                                 quotation mark, blanks and operator characters included) — joined by any of the fourteen operators, with any
                                 layout of blanks, any length: the scanner produces exactly the alternating value / operator tokens;
  * `C04_expr_value`            and `Tokenizer.tokenize` of such a text is the evaluation of the reference precedence parse of those tokens.
  * **parentheses** (`Lemmas/LexGroup`, `Lemmas/EvalGroup`): a leaf may also be a parenthesised group `( t )` or `!( t )` around ANY text `t`
                                 that is balanced (`GoodGrp`: the group's closing parenthesis is the one after `t`; parentheses inside string
                                 literals do not count; at most the parenthesis limit deep) — `C04_lex_expr` scans it into ONE group token, and
  * `C04_group_value`           `Tokenizer.tokenize` of a flat expression whose leaves include groups is the evaluation of the reference
                                 precedence parse in which **every group leaf has the value `tokenize` gives the text between its parentheses**
                                 (negated for `!( )`) — so parentheses override precedence, to any nesting depth (apply the theorem again to the
                                 inner text).  The evaluator's recursion through the scanner carries a fuel argument in the model;
                                 `eval_fuel_mono` shows the fuel is immaterial, `reduceAll_weight` bounds what an evaluation needs.
  * `C04_group_leaf`            the value of a group leaf, stated outright;
  * `C04_redundant_parens`      `( t )` evaluates to what `t` evaluates to (value or error) — redundant parentheses change nothing;
                                 `C04_not_value`: `!( t )` is the negated truth value of `t`.
                                 Guard of these three: the model's own evaluation of `t` does not end in its "recursion fuel ran out" answer
                                 (`Outcome.isFuel`; the fuel is 3·length+10; sufficiency for ARBITRARY text is not proved).
  * `C04_nested_value`          **the guard discharged for structured expressions of ANY nesting depth** (`GoodAtomD n`: leaves are numbers,
                                 literals, names, TRUE/FALSE, strings, or groups whose inner text is again such an expression, `n` levels deep):
                                 `tokenize` of such an expression is the fuel-free evaluation of its reference precedence parse, unconditionally —
                                 `C04_nested_total`: the model's fuel never runs out on them (no value operation, literal conversion or
                                 operator ever returns the fuel answer: `Lemmas/NoFuel`; tree building keeps the leaves: `reduceAll_allLeaves`).
  * **signed and decimal literals** (`Lemmas/LexNum`): a leaf may also be a literal `[-]digits[.digits]` (`Atom.lit`): the number class
                                 takes a leading `-` (token still open), digits close it, the first `.` makes it a decimal, the first character
                                 that is neither digit nor dot ends it unconsumed — `C04_lex_expr` / `C04_expr_value` / `C04_group_value` cover
                                 such leaves; `C04_neg_literal_value`: `-ddd` is the integer −ddd (an integer, not a float: the `fix:`).
  * **names beginning with T or F** (`Lemmas/LexNameTF`): a leaf may also be such a name (`Atom.tfname`: `Total`, `Flag`, `TRx`, …) that departs
                                 from TRUE / FALSE before either ends: the Boolean class takes the first characters, gives up at the departure,
                                 the scanner returns to the start of the name with that class black-listed and the Variable class reads it —
                                 anywhere in a compound expression, closed by the next delimiter or the end of the text.
                                 With this every kind of leaf is covered; what remains outside the scanner theorems are exactly the names that
                                 are a prefix of, equal to or an extension of TRUE / FALSE (the known finding D14, where the statement is false
                                 of the code).
-/
namespace Duckling.Props.C04
open Duckling

theorem C04_ranks_documented :
    rankTable = [["^"], ["*", "/", "//", "%"], ["+", "-"], ["==", "!=", "<", ">", "<=", ">="], [","]] := by decide

theorem C04_ranks_disjoint : rankTable.Pairwise (fun a b => ∀ x ∈ b, x ∉ a) := by decide

theorem C04_every_operator_ranked :
    ∀ o ∈ (Generated.opClasses.flatMap (·.operators)), ∃ r ∈ rankTable, o ∈ r := by decide

/-- the ranks as predicates on operator texts are pairwise disjoint -/
theorem ranks_pairwise : ranks.Pairwise (fun a b => ∀ o, b o = true → a o = false) := by
  unfold ranks
  rw [List.pairwise_map]
  refine List.Pairwise.imp ?_ C04_ranks_disjoint
  intro a b hab o hb
  simp only [List.contains_iff_mem] at hb ⊢
  have := hab _ (by simpa using hb)
  simpa using this

/-- Stage A: for any head value `h` and any operator/value sequence `ps` whose operators are all in the
    table, tree building yields exactly the reference precedence parse, with nothing left over -/
theorem C04_build (h : Tree Tok Str) (ps : Pairs Tok Str) (hops : OpsIn ranks ps) :
    reduceAll ranks h ps = (refL ranks.reverse h ps, []) :=
  reduceAll_eq_ref ranks ranks_pairwise h ps hops

/-- `/`, `//`, `%` by zero are the divide-by-zero compile error, for every integer or float left operand -/
theorem C04_div_zero (op : String) (hop : op = "/" ∨ op = "//" ∨ op = "%") (l : Val)
    (hl : (∃ i, l = .int i) ∨ (∃ m k, l = .flt m k)) :
    Val.binop op l (.int 0) = .cerr .divideByZero := by
  rcases hop with rfl | rfl | rfl <;> rcases hl with ⟨i, rfl⟩ | ⟨m, k, rfl⟩ <;> simp [Val.binop, Val.cmpOp, Val.addOp, Val.arithOp, Val.numOp, Val.num?]

/-- `+` concatenates when either side is a string -/
theorem C04_concat (a : Str) (r : Val) (b : Str) (hr : r.pyStr = .ok b) :
    Val.binop "+" (.str a) r = .ok (.str (a ++ b)) ∧
    (∀ i : Int, Val.hugeInt i = false → Val.binop "+" (.int i) (.str a) = .ok (.str (intToStr i ++ a))) := by
  refine ⟨by simp [Val.binop, Val.cmpOp, Val.addOp, Val.arithOp, Val.numOp, hr, bind], fun i hi => ?_⟩
  simp [Val.binop, Val.cmpOp, Val.addOp, Val.arithOp, Val.numOp, Val.pyStr, hi, bind]

/-- integer arithmetic is integer arithmetic (results below the model's size guard) -/
theorem C04_int_arith (a b : Int) :
    (Val.hugeInt (a + b) = false → Val.binop "+" (.int a) (.int b) = .ok (.int (a + b))) ∧
    (Val.hugeInt (a - b) = false → Val.binop "-" (.int a) (.int b) = .ok (.int (a - b))) ∧
    (Val.hugeInt (a * b) = false → Val.binop "*" (.int a) (.int b) = .ok (.int (a * b))) ∧
    (b ≠ 0 → Val.hugeInt (Int.fdiv a b) = false → Val.binop "//" (.int a) (.int b) = .ok (.int (Int.fdiv a b))) ∧
    (b ≠ 0 → Val.hugeInt (Int.fmod a b) = false → Val.binop "%" (.int a) (.int b) = .ok (.int (Int.fmod a b))) := by
  refine ⟨?_, ?_, ?_, ?_, ?_⟩
  · intro h; simp [Val.binop, Val.cmpOp, Val.addOp, Val.arithOp, Val.numOp, Val.num?, Val.align, Val.mkNum, h]
  · intro h; simp [Val.binop, Val.cmpOp, Val.addOp, Val.arithOp, Val.numOp, Val.num?, Val.align, Val.mkNum, h]
  · intro h; simp [Val.binop, Val.cmpOp, Val.addOp, Val.arithOp, Val.numOp, Val.num?, Val.mkNum, h]
  · intro hb h; simp [Val.binop, Val.cmpOp, Val.addOp, Val.arithOp, Val.numOp, Val.num?, Val.align, Val.mkNum, h, hb]
  · intro hb h; simp [Val.binop, Val.cmpOp, Val.addOp, Val.arithOp, Val.numOp, Val.num?, Val.align, Val.mkNum, h, hb]

theorem C04_comparisons (a b : Int) :
    Val.binop "<" (.int a) (.int b) = .ok (.bool (decide (a < b))) ∧
    Val.binop "==" (.int a) (.int b) = .ok (.bool (decide (a = b))) := by
  constructor
  · simp only [Val.binop, Val.cmpOp, Val.addOp, Val.arithOp, Val.numOp, Val.num?, Val.cmpNum, Val.align]
    by_cases h : a < b
    · simp [h, compare, compareOfLessAndEq]
    · simp [h, compare, compareOfLessAndEq]; split <;> simp
  · simp only [Val.binop, Val.cmpOp, Val.addOp, Val.arithOp, Val.numOp, Val.pyEq, Val.num?, Val.cmpNum, Val.align, Val.isList]
    by_cases h : a = b
    · subst h; simp [compare, compareOfLessAndEq]
    · by_cases h2 : a < b <;> simp [compare, compareOfLessAndEq, h, h2]

theorem C04_integral_is_int (m : Int) : (Val.flt m 0).normalise = .int m ∧ (∀ i, (Val.int i).normalise = .int i) := ⟨rfl, fun _ => rfl⟩

/-- `!( … )`: the negated truth value of what the parenthesised text evaluates to (errors are the same errors) -/
theorem C04_not (vars : VarEnv) (f : Nat) (s : Str) :
    solveOpp vars (f + 1) s true = (solveOpp vars (f + 1) s false >>= fun v => .ok (.bool (!v.truthy))) := by
  simp only [solveOpp]
  cases lex (vars.map (·.1)) s with
  | ok toks =>
    simp only [Outcome.bind_ok]
    cases toFlat toks with
    | none => rfl
    | some hp =>
      obtain ⟨h, ps⟩ := hp
      simp only []
      split
      · rfl
      · cases evalTree vars f (reduceAll ranks h ps).1 with
        | ok v => simp
        | cerr k => rfl
        | crash e => rfl
        | oom w => rfl
  | cerr k => rfl
  | crash e => rfl
  | oom w => rfl

theorem C04_lex_digits (vars : List Str) (ds : Str) (hne : ds ≠ []) (hall : ds.all isDigitC = true) :
    lex vars ds = .ok [⟨.num, ds, false⟩] := lex_digits vars ds hne hall

theorem C04_tokenize_digits (vars : VarEnv) (ds : Str) (hne : ds ≠ []) (hall : ds.all isDigitC = true) :
    tokenize vars ds = .ok (.int (digitsVal ds)) := tokenize_digits vars ds hne hall

theorem C04_flat_tokens (vars : List Str) (ds : Str) (rest : FlatRest) (hds : GoodNum ds) (hrest : GoodRest rest) :
    lex vars (flatText ds rest) = .ok (flatToks ds rest) := lex_flat vars ds rest hds hrest

theorem C04_flat_blanks (vars : List Str) (lead ds : Str) (rest : FlatRestB) (trail : Str) (hlead : AllSp lead) (htrail : AllSp trail)
    (hds : GoodNum ds) (hrest : GoodRestB rest) :
    lex vars (flatTextB lead ds rest trail) = .ok (flatToks ds (plainOf rest)) := lex_flatB vars lead ds rest trail hlead htrail hds hrest

/-- the token list does not depend on the layout of blanks -/
theorem C04_layout_independent (vars : List Str) (lead ds : Str) (rest : FlatRestB) (trail : Str) (hlead : AllSp lead) (htrail : AllSp trail)
    (hds : GoodNum ds) (hrest : GoodRestB rest) :
    lex vars (flatTextB lead ds rest trail) = lex vars (flatText ds (plainOf rest)) := by
  rw [lex_flatB vars lead ds rest trail hlead htrail hds hrest, lex_flat vars ds (plainOf rest) hds]
  intro t ht
  simp only [plainOf, List.mem_map] at ht
  obtain ⟨u, hu, rfl⟩ := ht
  exact ⟨(hrest u hu).2.1, (hrest u hu).2.2.2⟩

theorem flatPairs_opsIn (rest : FlatRest) (hrest : GoodRest rest) : OpsIn ranks (flatPairs rest) := by
  intro o ho
  simp only [ops, flatPairs, List.map_map, List.mem_map, Function.comp] at ho
  obtain ⟨t, ht, rfl⟩ := ho
  have hr := opInfo_ranked (t.1, t.2.1) (hrest t ht).1
  simp only [List.any_eq_true] at hr
  obtain ⟨r, hrm, hrc⟩ := hr
  exact ⟨fun o => r.contains (String.ofList o), by simp only [ranks, List.mem_map]; exact ⟨r, hrm, rfl⟩, hrc⟩

/-- **scanner, tree builder and evaluator composed** on flat arithmetic -/
theorem C04_flat_value (vars : VarEnv) (ds : Str) (rest : FlatRest) (hds : GoodNum ds) (hrest : GoodRest rest) :
    tokenize vars (flatText ds rest) =
      (evalTree vars (3 * (flatText ds rest).length + 9)
        (refL ranks.reverse (Tree.leaf ⟨.num, ds, false⟩) (flatPairs rest)) >>= fun v => .ok v.normalise) := by
  unfold tokenize evalFuel
  rw [solveOpp]
  simp only [lex_flat _ ds rest hds hrest, Outcome.bind_ok, toFlat_flatToks, C04_build _ _ (flatPairs_opsIn rest hrest),
    List.isEmpty_nil, Bool.not_true, Bool.false_eq_true, if_false]

/-- non-vacuity: `12+3*4` -/
example : GoodNum "12".toList ∧ GoodRest [("+".toList, .math, "3".toList), ("*".toList, .math, "4".toList)] ∧
    flatText "12".toList [("+".toList, .math, "3".toList), ("*".toList, .math, "4".toList)] = "12+3*4".toList := by
  refine ⟨⟨by decide, by decide⟩, ?_, by decide⟩
  intro t ht
  simp only [List.mem_cons, List.mem_nil_iff, or_false] at ht
  rcases ht with rfl | rfl <;> exact ⟨by decide, by decide, by decide⟩

theorem C04_lex_expr (names : List Str) (hn : NamesOk names) (lead : Str) (a : Atom) (rest : ExprRest) (trail : Str)
    (hlead : AllSp lead) (htrail : AllSp trail) (ha : GoodAtom names a) (hrest : GoodExprRest names rest) :
    lex names (exprText lead a rest trail) = .ok (exprToks a rest) := lex_expr names hn lead a rest trail hlead htrail ha hrest

theorem exprPairs_opsIn (names : List Str) (rest : ExprRest) (hrest : GoodExprRest names rest) : OpsIn ranks (exprPairs rest) := by
  intro o ho
  simp only [ops, exprPairs, List.map_map, List.mem_map, Function.comp] at ho
  obtain ⟨t, ht, rfl⟩ := ho
  have hr := opInfo_ranked (t.2.1, t.2.2.1) (hrest t ht).2.1
  simp only [List.any_eq_true] at hr
  obtain ⟨r, hrm, hrc⟩ := hr
  exact ⟨fun o => r.contains (String.ofList o), by simp only [ranks, List.mem_map]; exact ⟨r, hrm, rfl⟩, hrc⟩

/-- **scanner, tree builder and evaluator composed** on flat expressions over numbers, names, TRUE/FALSE and strings -/
theorem C04_expr_value (vars : VarEnv) (hn : NamesOk (vars.map (·.1))) (lead : Str) (a : Atom) (rest : ExprRest) (trail : Str)
    (hlead : AllSp lead) (htrail : AllSp trail) (ha : GoodAtom (vars.map (·.1)) a) (hrest : GoodExprRest (vars.map (·.1)) rest) :
    tokenize vars (exprText lead a rest trail) =
      (evalTree vars (3 * (exprText lead a rest trail).length + 9)
        (refL ranks.reverse (Tree.leaf a.tok) (exprPairs rest)) >>= fun v => .ok v.normalise) := by
  unfold tokenize evalFuel
  rw [solveOpp]
  simp only [lex_expr _ hn lead a rest trail hlead htrail ha hrest, Outcome.bind_ok, toFlat_exprToks,
    C04_build _ _ (exprPairs_opsIn _ rest hrest), List.isEmpty_nil, Bool.not_true, Bool.false_eq_true, if_false]

theorem C04_lex_name (names : List Str) (x : Str) (hin : names.contains x = true) (hlen : 0 < x.length) (hc : NameStart (x[0])) :
    lex names x = .ok [⟨.var, x, false⟩] := lex_name names x hin hlen hc

/-! ### parentheses -/

/-- the reference precedence parse of a flat expression's tokens -/
def exprTree (a : Atom) (rest : ExprRest) : Tree Tok Str := refL ranks.reverse (Tree.leaf a.tok) (exprPairs rest)

theorem wPairs_exprPairs_le (names : List Str) (rest : ExprRest) (hrest : GoodExprRest names rest) :
    wPairs (exprPairs rest) ≤ (exprRestText rest).length := by
  induction rest with
  | nil => simp [wPairs, exprPairs]
  | cons t r ih =>
    obtain ⟨sp1, op, cls, sp2, a'⟩ := t
    obtain ⟨_, hop, _, _⟩ := hrest (sp1, op, cls, sp2, a') List.mem_cons_self
    have hr : GoodExprRest names r := fun u hu => hrest u (List.mem_cons_of_mem _ hu)
    obtain ⟨c0, r0, hop0, _⟩ := op_head_delim op cls hop
    have hopl : 1 ≤ op.length := by rw [hop0]; simp
    have hle := wLeaf_atom_le a'
    have := ih hr
    simp only [wPairs, exprPairs, List.map_cons, List.sum_cons, wTree, exprRestText, List.flatMap_cons, List.length_append] at this ⊢
    omega

theorem wTree_exprTree (names : List Str) (a : Atom) (rest : ExprRest) (hrest : GoodExprRest names rest) :
    wTree (exprTree a rest) = wLeaf a.tok + wPairs (exprPairs rest) := by
  have hb := C04_build (Tree.leaf a.tok) (exprPairs rest) (exprPairs_opsIn names rest hrest)
  have hw := reduceAll_weight ranks (Tree.leaf a.tok) (exprPairs rest)
  rw [hb] at hw
  simpa [wPairs, wTree, exprTree] using hw

/-- **parentheses**: `Tokenizer.tokenize` of a flat expression over numbers, names, TRUE/FALSE, string literals AND parenthesised
    groups is the (fuel-free) evaluation of the reference precedence parse of its tokens, in which a group leaf `( t )` / `!( t )` has
    the value `Tokenizer.solve` gives the text `t` on its own (`leafValS`, `C04_group_leaf`) -/
theorem C04_group_value (vars : VarEnv) (hn : NamesOk (vars.map (·.1))) (lead : Str) (a : Atom) (rest : ExprRest) (trail : Str)
    (hlead : AllSp lead) (htrail : AllSp trail) (ha : GoodAtom (vars.map (·.1)) a) (hrest : GoodExprRest (vars.map (·.1)) rest)
    (hfuel : (evalTreeS vars (exprTree a rest)).isFuel = false) :
    tokenize vars (exprText lead a rest trail) = (evalTreeS vars (exprTree a rest) >>= fun v => .ok v.normalise) := by
  rw [C04_expr_value vars hn lead a rest trail hlead htrail ha hrest]
  have hw := wTree_exprTree _ a rest hrest
  have h1 := wLeaf_atom_le a
  have h2 := wPairs_exprPairs_le _ rest hrest
  have hlen : (exprText lead a rest trail).length = lead.length + (a.text.length + ((exprRestText rest).length + trail.length)) := by
    simp [exprText]
  rw [show refL ranks.reverse (Tree.leaf a.tok) (exprPairs rest) = exprTree a rest from rfl,
    evalTree_eq_S vars (exprTree a rest) _ (by omega) hfuel]

/-- the value of a group leaf: what `tokenize` gives the text between the parentheses, negated (as a truth value) for `!( )` -/
theorem C04_group_leaf (vars : VarEnv) (neg : Bool) (inner : Str) :
    leafValS vars (Atom.grp neg inner).tok =
      (tokenize vars inner >>= fun v => .ok (if neg then .bool (!v.truthy) else v)) := by
  simp only [leafValS, Atom.tok, stripParens_grp, tokenize]
  cases neg with
  | false =>
    simp only [Bool.false_eq_true, if_false]
    cases solveOpp vars (evalFuel inner) inner false <;> rfl
  | true =>
    simp only [if_true]
    exact C04_not vars (3 * inner.length + 9) inner

theorem tokenize_normalised (vars : VarEnv) (s : Str) (v : Val) (h : tokenize vars s = .ok v) : v.normalise = v := by
  unfold tokenize evalFuel at h
  rw [solveOpp] at h
  cases hl : lex (vars.map (·.1)) s with
  | ok toks =>
    simp only [hl, Outcome.bind_ok] at h
    cases hfl : toFlat toks with
    | none => simp [hfl] at h
    | some hp =>
      obtain ⟨hh, ps⟩ := hp
      simp only [hfl] at h
      split at h
      · cases h
      · cases he : evalTree vars (3 * s.length + 9) (reduceAll ranks hh ps).1 with
        | ok w =>
          simp only [he, Outcome.bind_ok, Bool.false_eq_true, if_false, Outcome.ok.injEq] at h
          rw [← h]; exact normalise_idem w
        | cerr k => simp [he, bind] at h
        | crash e => simp [he, bind] at h
        | oom w => simp [he, bind] at h
  | cerr k => simp [hl, bind] at h
  | crash e => simp [hl, bind] at h
  | oom w => simp [hl, bind] at h

theorem exprTree_single (a : Atom) : exprTree a [] = Tree.leaf a.tok := by
  have hb := C04_build (Tree.leaf a.tok) [] (by intro o ho; simp [ops] at ho)
  have : reduceAll ranks (Tree.leaf a.tok) ([] : Pairs Tok Str) = (Tree.leaf a.tok, []) := by
    generalize ranks = rs
    induction rs with
    | nil => rfl
    | cons r rs ih => rw [reduceAll]; simpa [reducePass] using ih
  rw [this] at hb
  simpa [exprTree, exprPairs] using (congrArg Prod.fst hb).symm

/-- **redundant parentheses change nothing**: for any balanced text `t`, `( t )` evaluates to exactly what `t` evaluates to (value or
    error), whatever names are in scope -/
theorem C04_redundant_parens (vars : VarEnv) (hn : NamesOk (vars.map (·.1))) (hp : NoParenNames (vars.map (·.1))) (t : Str) (hg : GoodGrp t)
    (hfuel : (tokenize vars t).isFuel = false) :
    tokenize vars ('(' :: (t ++ [')'])) = tokenize vars t := by
  have hleaf := C04_group_leaf vars false t
  simp only [Bool.false_eq_true, if_false] at hleaf
  have hS : evalTreeS vars (exprTree (.grp false t) []) = tokenize vars t := by
    rw [exprTree_single, evalTreeS, hleaf]
    cases tokenize vars t <;> rfl
  have h := C04_group_value vars hn [] (.grp false t) [] [] (by simp [AllSp]) (by simp [AllSp]) ⟨hg, hp⟩ (by intro u hu; cases hu)
    (by rw [hS]; exact hfuel)
  rw [hS] at h
  have htxt : exprText [] (.grp false t) [] [] = '(' :: (t ++ [')']) := by simp [exprText, exprRestText, Atom.text, grpText]
  rw [htxt] at h
  rw [h]
  cases hv : tokenize vars t with
  | ok v => simp only [Outcome.bind_ok]; rw [tokenize_normalised vars t v hv]
  | cerr k => rfl
  | crash e => rfl
  | oom w => rfl

/-- `!( t )` is the negated truth value of what `t` evaluates to -/
theorem C04_not_value (vars : VarEnv) (hn : NamesOk (vars.map (·.1))) (hp : NoParenNames (vars.map (·.1))) (t : Str) (hg : GoodGrp t)
    (hfuel : (tokenize vars t).isFuel = false) :
    tokenize vars ('!' :: '(' :: (t ++ [')'])) = (tokenize vars t >>= fun v => .ok (.bool (!v.truthy))) := by
  have hleaf := C04_group_leaf vars true t
  simp only [if_true] at hleaf
  have hS : evalTreeS vars (exprTree (.grp true t) []) = (tokenize vars t >>= fun v => .ok (.bool (!v.truthy))) := by
    rw [exprTree_single, evalTreeS, hleaf]
  have h := C04_group_value vars hn [] (.grp true t) [] [] (by simp [AllSp]) (by simp [AllSp]) ⟨hg, hp⟩ (by intro u hu; cases hu)
    (by rw [hS]; cases hv : tokenize vars t with
        | ok v => rfl
        | cerr k => rfl
        | crash e => rfl
        | oom w => rw [hv] at hfuel; exact hfuel)
  rw [hS] at h
  have htxt : exprText [] (.grp true t) [] [] = '!' :: '(' :: (t ++ [')']) := by simp [exprText, exprRestText, Atom.text, grpText]
  rw [htxt] at h
  rw [h]
  cases tokenize vars t <;> rfl

/-- a balanced text in one more pair of parentheses is balanced (below the parenthesis limit) -/
theorem goodGrp_wrap_example : GoodGrp "1+(2*3)".toList ∧ GoodGrp "(1+(2*3))".toList ∧ GoodGrp "\"a)\"+(x)".toList ∧
    ¬ GoodGrp "1)+(2".toList := by
  refine ⟨by unfold GoodGrp; decide, by unfold GoodGrp; decide, by unfold GoodGrp; decide, by unfold GoodGrp; decide⟩

/-- non-vacuity of `C04_group_value`: `2*(1+3)` with the group `(1+3)` as a leaf -/
example : GoodAtom [] (.num "2".toList) ∧ GoodExprRest [] [([], "*".toList, .math, [], .grp false "1+3".toList)] ∧
    exprText [] (.num "2".toList) [([], "*".toList, .math, [], .grp false "1+3".toList)] [] = "2*(1+3)".toList := by
  refine ⟨⟨by decide, by decide⟩, ?_, by decide⟩
  intro t ht
  simp only [List.mem_cons, List.mem_nil_iff, or_false] at ht
  subst ht
  exact ⟨by simp [AllSp], by decide, by simp [AllSp], by unfold GoodGrp; decide, fun nm h => by cases h⟩

/-- a negative integer literal denotes the negative integer (an integer, not a float) -/
theorem C04_neg_literal_value (ds : Str) (hds : GoodNum ds) : numberValue ('-' :: ds) = .ok (.int (-(digitsVal ds))) := by
  obtain ⟨hne, hall⟩ := hds
  have he : ds.isEmpty = false := by cases ds <;> simp_all
  simp [numberValue, he, hall]

/-- non-vacuity for literals: `-12`, `2.5`, `7.` are literals; `2.5` is the exact dyadic 5/2 -/
example : GoodLit "12".toList none ∧ litText true "12".toList none = "-12".toList ∧
    GoodLit "2".toList (some "5".toList) ∧ litText false "2".toList (some "5".toList) = "2.5".toList ∧
    (match numberValue "2.5".toList with | .ok (.flt 5 1) => true | _ => false) = true := by
  refine ⟨⟨by decide, by decide, fun f h => by cases h⟩, by decide, ⟨by decide, by decide, fun f h => ?_⟩, by decide, by decide⟩
  cases h; decide

/-- non-vacuity for names beginning with T / F: `Total` (departs from TRUE at its second letter) among the names in scope -/
example : GoodAtom ["Total".toList, "To".toList] (.tfname "Total".toList) := by
  refine ⟨by decide, "TRUE".toList, 0, 1, by decide, by decide, boolGivesUp_true, ⟨by decide, by decide, by decide, by decide, ?_⟩, ?_⟩
  · intro h1 h2; show 'o' ≠ 'R'; decide
  · intro h
    exact ⟨(show NameStart0 'T' from ⟨by decide, by decide, by decide, by decide, by decide⟩), (show ('T' == '/') = false from by decide),
      (show ('T' == '=') = false from by decide)⟩

/-! ### structured expressions of any nesting depth: the fuel guard discharged -/

/-- a leaf of nesting depth at most `n`: any good atom whose group (if it is one) contains a flat expression of leaves of depth `< n` -/
def GoodAtomD (names : List Str) : Nat → Atom → Prop
  | 0, a => GoodAtom names a ∧ ∀ neg inner, a ≠ .grp neg inner
  | n + 1, a => GoodAtom names a ∧ ∀ neg inner, a = .grp neg inner →
      ∃ lead a' rest trail, inner = exprText lead a' rest trail ∧ AllSp lead ∧ AllSp trail ∧ GoodAtomD names n a' ∧
        GoodExprRest names rest ∧ ∀ t ∈ rest, GoodAtomD names n t.2.2.2.2

theorem goodAtomD_good (names : List Str) (n : Nat) (a : Atom) (h : GoodAtomD names n a) : GoodAtom names a := by
  cases n <;> exact h.1

theorem atom_tok_cls_grp (a : Atom) (h : a.tok.cls = .grp) : ∃ neg inner, a = .grp neg inner := by
  cases a <;> simp [Atom.tok] at h
  exact ⟨_, _, rfl⟩

/-- if every leaf of a flat expression has an answer, so has the expression's tree -/
theorem exprTree_notFuel (vars : VarEnv) (names : List Str) (a : Atom) (rest : ExprRest) (hrest : GoodExprRest names rest)
    (ha : (leafValS vars a.tok).isFuel = false) (hr : ∀ t ∈ rest, (leafValS vars t.2.2.2.2.tok).isFuel = false) :
    (evalTreeS vars (exprTree a rest)).isFuel = false := by
  apply evalTreeS_notFuel
  have hb := C04_build (Tree.leaf a.tok) (exprPairs rest) (exprPairs_opsIn names rest hrest)
  have : exprTree a rest = (reduceAll ranks (Tree.leaf a.tok) (exprPairs rest)).1 := by rw [hb]; rfl
  rw [this]
  apply reduceAll_allLeaves
  · exact ha
  · intro p hp
    simp only [exprPairs, List.mem_map] at hp
    obtain ⟨t, ht, rfl⟩ := hp
    exact hr t ht

/-- **the model's fuel never runs out on structured expressions**, whatever their nesting depth -/
theorem C04_nested_total (vars : VarEnv) (hn : NamesOk (vars.map (·.1))) :
    ∀ (n : Nat) (a : Atom), GoodAtomD (vars.map (·.1)) n a → (leafValS vars a.tok).isFuel = false := by
  intro n
  induction n with
  | zero =>
    intro a ⟨_, hng⟩
    apply leafValS_notFuel_nongrp
    intro hc
    obtain ⟨neg, inner, rfl⟩ := atom_tok_cls_grp a hc
    exact hng neg inner rfl
  | succ n ih =>
    intro a ⟨hga, hgrp⟩
    by_cases hc : a.tok.cls = .grp
    · obtain ⟨neg, inner, rfl⟩ := atom_tok_cls_grp a hc
      obtain ⟨lead, a', rest, trail, rfl, hlead, htrail, ha', hrest, hall⟩ := hgrp neg inner rfl
      have hT := exprTree_notFuel vars _ a' rest hrest (ih a' ha') (fun t ht => ih _ (hall t ht))
      have hv := C04_group_value vars hn lead a' rest trail hlead htrail (goodAtomD_good _ n a' ha') hrest hT
      rw [C04_group_leaf, hv]
      refine isFuel_bind _ _ (isFuel_bind _ _ hT (fun _ => rfl)) (fun _ => rfl)
    · exact leafValS_notFuel_nongrp vars a.tok hc

/-- **nested expressions, unconditionally**: `Tokenizer.tokenize` of a flat expression whose leaves are structured to any depth `n` is
    the fuel-free evaluation of the reference precedence parse of its tokens -/
theorem C04_nested_value (vars : VarEnv) (hn : NamesOk (vars.map (·.1))) (n : Nat) (lead : Str) (a : Atom) (rest : ExprRest) (trail : Str)
    (hlead : AllSp lead) (htrail : AllSp trail) (ha : GoodAtomD (vars.map (·.1)) n a) (hrest : GoodExprRest (vars.map (·.1)) rest)
    (hall : ∀ t ∈ rest, GoodAtomD (vars.map (·.1)) n t.2.2.2.2) :
    tokenize vars (exprText lead a rest trail) = (evalTreeS vars (exprTree a rest) >>= fun v => .ok v.normalise) :=
  C04_group_value vars hn lead a rest trail hlead htrail (goodAtomD_good _ n a ha) hrest
    (exprTree_notFuel vars _ a rest hrest (C04_nested_total vars hn n a ha) (fun t ht => C04_nested_total vars hn n _ (hall t ht)))

end Duckling.Props.C04
