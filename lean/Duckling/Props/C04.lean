import Duckling.Model.Expr
import Duckling.Lemmas.Prec
import Duckling.Lemmas.RBasic
import Duckling.Lemmas.LexDigits
import Duckling.Lemmas.LexName
import Duckling.Lemmas.LexFlat
import Duckling.Lemmas.LexFlatB
import Duckling.Lemmas.LexExpr
/-
  C04 — expressions evaluate with the documented precedence and typing.

  Stage A (tree building) is proved for sequences of any length:
  * `C04_ranks_documented`      the operator table regenerated from the source is the documented one
                                 (`^` ≻ `* / // %` ≻ `+ -` ≻ six comparisons ≻ `,`), visited tightest first;
  * `C04_ranks_disjoint`, `C04_every_operator_ranked`   table facts the theorem needs, re-checked on every run;
  * `C04_build`                 the rank-by-rank left-to-right reduction of `__build_parse_trees` equals the
                                 reference grammar `refL` (split at the loosest rank, parse the segments with the
                                 tighter ranks, fold left-associatively) and leaves nothing unreduced;
  Stage C (values), for every operand:
  * `C04_div_zero`              `/`, `//`, `%` by a zero right operand are DivideByZeroError, whatever the left number;
  * `C04_concat`                `+` concatenates when either side is a string (the other side printed as Python prints it);
  * `C04_int_arith`             on integers `+ - * // %` are the integer operations (floor division and modulo);
  * `C04_comparisons`           the six comparisons on integers;
  * `C04_integral_is_int`       an integral float is normalised to an integer at every parenthesis level;
  * `C04_not`                   `!( )` yields the negated truth value of what the parenthesised text evaluates to.
  Stage B (the character scanner), first theorems — the scanner is a character-level state machine with back-tracking
  (`Lexer.lean`); proved by induction over its character loop:
  * `C04_lex_digits`            a non-empty string of decimal digits of ANY length is scanned into exactly one number token carrying
                                 that text, whatever variable names are in scope (the string class declines the first digit, the number
                                 class takes it, every further digit extends the token, the end of the text closes it);
  * `C04_tokenize_digits`       and evaluates to the integer the digits denote (leading zeros included) — `Tokenizer.tokenize` end to end.
  * `C04_lex_name`              a variable name that is in scope (first letter not T/F), standing alone, is scanned into exactly one Variable
                                 token whatever other names are in scope — prefixes and extensions of it included (the keyword matcher's
                                 candidate-set invariant; see C20_readable);
  * `C04_flat_tokens`           **flat arithmetic of any length** — an unsigned number followed by any number of (operator, unsigned number)
                                 pairs, written without blanks or parentheses, over all fourteen operators (`12+3*4`, `10//3-1`, `1<=2`, `7,8,9`) —
                                 is scanned into exactly the alternating list of number and operator tokens.  Where an operator is a prefix of
                                 another (`/` `//`, `<` `<=`, `>` `>=`) the keyword matcher reads on and decides at the next character; a number is
                                 closed by the operator's first character, which is then scanned again as an operator.  One lemma per kind of token,
                                 each for the scanner standing anywhere in the text (`Steps`), composed by induction over the pairs;
  * `C04_flat_blanks`           **spacing**: blanks (any white-space characters, any number) before the first number, before and after every
                                 operator and after the last number change nothing — the scanner produces exactly the tokens of the expression
                                 written without blanks (`C04_layout_independent`), for flat arithmetic of any length;
  * `C04_flat_value`            **end to end**: `Tokenizer.tokenize` of such a text is the evaluation of the reference precedence parse (`refL`,
                                 Stage A) of those tokens — scanner, tree builder and evaluator composed.
  * `C04_lex_expr`              **flat expressions over every kind of leaf value** — unsigned numbers, variable names (ANY set of names in
                                 scope, prefixes of one another included; first letter not T/F), TRUE / FALSE, string literals (any text without a
                                 quotation mark, blanks and operator characters included) — joined by any of the fourteen operators, with any
                                 layout of blanks, any length: the scanner produces exactly the alternating value / operator tokens;
  * `C04_expr_value`            and `Tokenizer.tokenize` of such a text is the evaluation of the reference precedence parse of those tokens.
                                 What the scanner theorems leave out: parenthesised groups (one token for the scanner, evaluated by a recursive
                                 call), `!( )`, signed and decimal literals, names beginning with T/F inside compound expressions.
  That the scanner recognises every rendering of a compound expression (operators, blanks, parentheses, strings, names) is validated
  by the correspondence only (DESIGN.md C04) — `partial` in that respect.
-/
namespace Duckling.Props.C04
open Duckling

theorem C04_ranks_documented :
    rankTable = [["^"], ["*", "/", "//", "%"], ["+", "-"], ["==", "!=", "<", ">", "<=", ">="], [","]] := by decide

theorem C04_ranks_disjoint : rankTable.Pairwise (fun a b => ∀ x ∈ b, x ∉ a) := by decide

theorem C04_every_operator_ranked :
    ∀ o ∈ (Generated.opClasses.flatMap (·.operators)), ∃ r ∈ rankTable, o ∈ r := by decide

/-- the ranks as predicates on operator texts are pairwise disjoint -/
theorem ranks_pairwise : ranks.Pairwise (fun a b => ∀ o, b o = true → a o = false) := by
  unfold ranks
  rw [List.pairwise_map]
  refine List.Pairwise.imp ?_ C04_ranks_disjoint
  intro a b hab o hb
  simp only [List.contains_iff_mem] at hb ⊢
  have := hab _ (by simpa using hb)
  simpa using this

/-- Stage A: for any head value `h` and any operator/value sequence `ps` whose operators are all in the
    table, tree building yields exactly the reference precedence parse, with nothing left over -/
theorem C04_build (h : Tree Tok Str) (ps : Pairs Tok Str) (hops : OpsIn ranks ps) :
    reduceAll ranks h ps = (refL ranks.reverse h ps, []) :=
  reduceAll_eq_ref ranks ranks_pairwise h ps hops

/-- `/`, `//`, `%` by zero are the divide-by-zero compile error, for every integer or float left operand -/
theorem C04_div_zero (op : String) (hop : op = "/" ∨ op = "//" ∨ op = "%") (l : Val)
    (hl : (∃ i, l = .int i) ∨ (∃ m k, l = .flt m k)) :
    Val.binop op l (.int 0) = .cerr .divideByZero := by
  rcases hop with rfl | rfl | rfl <;> rcases hl with ⟨i, rfl⟩ | ⟨m, k, rfl⟩ <;> simp [Val.binop, Val.cmpOp, Val.addOp, Val.arithOp, Val.numOp, Val.num?]

/-- `+` concatenates when either side is a string -/
theorem C04_concat (a : Str) (r : Val) (b : Str) (hr : r.pyStr = .ok b) :
    Val.binop "+" (.str a) r = .ok (.str (a ++ b)) ∧
    (∀ i : Int, Val.hugeInt i = false → Val.binop "+" (.int i) (.str a) = .ok (.str (intToStr i ++ a))) := by
  refine ⟨by simp [Val.binop, Val.cmpOp, Val.addOp, Val.arithOp, Val.numOp, hr, bind], fun i hi => ?_⟩
  simp [Val.binop, Val.cmpOp, Val.addOp, Val.arithOp, Val.numOp, Val.pyStr, hi, bind]

/-- integer arithmetic is integer arithmetic (results below the model's size guard) -/
theorem C04_int_arith (a b : Int) :
    (Val.hugeInt (a + b) = false → Val.binop "+" (.int a) (.int b) = .ok (.int (a + b))) ∧
    (Val.hugeInt (a - b) = false → Val.binop "-" (.int a) (.int b) = .ok (.int (a - b))) ∧
    (Val.hugeInt (a * b) = false → Val.binop "*" (.int a) (.int b) = .ok (.int (a * b))) ∧
    (b ≠ 0 → Val.hugeInt (Int.fdiv a b) = false → Val.binop "//" (.int a) (.int b) = .ok (.int (Int.fdiv a b))) ∧
    (b ≠ 0 → Val.hugeInt (Int.fmod a b) = false → Val.binop "%" (.int a) (.int b) = .ok (.int (Int.fmod a b))) := by
  refine ⟨?_, ?_, ?_, ?_, ?_⟩
  · intro h; simp [Val.binop, Val.cmpOp, Val.addOp, Val.arithOp, Val.numOp, Val.num?, Val.align, Val.mkNum, h]
  · intro h; simp [Val.binop, Val.cmpOp, Val.addOp, Val.arithOp, Val.numOp, Val.num?, Val.align, Val.mkNum, h]
  · intro h; simp [Val.binop, Val.cmpOp, Val.addOp, Val.arithOp, Val.numOp, Val.num?, Val.mkNum, h]
  · intro hb h; simp [Val.binop, Val.cmpOp, Val.addOp, Val.arithOp, Val.numOp, Val.num?, Val.align, Val.mkNum, h, hb]
  · intro hb h; simp [Val.binop, Val.cmpOp, Val.addOp, Val.arithOp, Val.numOp, Val.num?, Val.align, Val.mkNum, h, hb]

theorem C04_comparisons (a b : Int) :
    Val.binop "<" (.int a) (.int b) = .ok (.bool (decide (a < b))) ∧
    Val.binop "==" (.int a) (.int b) = .ok (.bool (decide (a = b))) := by
  constructor
  · simp only [Val.binop, Val.cmpOp, Val.addOp, Val.arithOp, Val.numOp, Val.num?, Val.cmpNum, Val.align]
    by_cases h : a < b
    · simp [h, compare, compareOfLessAndEq]
    · simp [h, compare, compareOfLessAndEq]; split <;> simp
  · simp only [Val.binop, Val.cmpOp, Val.addOp, Val.arithOp, Val.numOp, Val.pyEq, Val.num?, Val.cmpNum, Val.align, Val.isList]
    by_cases h : a = b
    · subst h; simp [compare, compareOfLessAndEq]
    · by_cases h2 : a < b <;> simp [compare, compareOfLessAndEq, h, h2]

theorem C04_integral_is_int (m : Int) : (Val.flt m 0).normalise = .int m ∧ (∀ i, (Val.int i).normalise = .int i) := ⟨rfl, fun _ => rfl⟩

/-- `!( … )`: the negated truth value of what the parenthesised text evaluates to (errors are the same errors) -/
theorem C04_not (vars : VarEnv) (f : Nat) (s : Str) :
    solveOpp vars (f + 1) s true = (solveOpp vars (f + 1) s false >>= fun v => .ok (.bool (!v.truthy))) := by
  simp only [solveOpp]
  cases lex (vars.map (·.1)) s with
  | ok toks =>
    simp only [Outcome.bind_ok]
    cases toFlat toks with
    | none => rfl
    | some hp =>
      obtain ⟨h, ps⟩ := hp
      simp only []
      split
      · rfl
      · cases evalTree vars f (reduceAll ranks h ps).1 with
        | ok v => simp
        | cerr k => rfl
        | crash e => rfl
        | oom w => rfl
  | cerr k => rfl
  | crash e => rfl
  | oom w => rfl

theorem C04_lex_digits (vars : List Str) (ds : Str) (hne : ds ≠ []) (hall : ds.all isDigitC = true) :
    lex vars ds = .ok [⟨.num, ds, false⟩] := lex_digits vars ds hne hall

theorem C04_tokenize_digits (vars : VarEnv) (ds : Str) (hne : ds ≠ []) (hall : ds.all isDigitC = true) :
    tokenize vars ds = .ok (.int (digitsVal ds)) := tokenize_digits vars ds hne hall

theorem C04_flat_tokens (vars : List Str) (ds : Str) (rest : FlatRest) (hds : GoodNum ds) (hrest : GoodRest rest) :
    lex vars (flatText ds rest) = .ok (flatToks ds rest) := lex_flat vars ds rest hds hrest

theorem C04_flat_blanks (vars : List Str) (lead ds : Str) (rest : FlatRestB) (trail : Str) (hlead : AllSp lead) (htrail : AllSp trail)
    (hds : GoodNum ds) (hrest : GoodRestB rest) :
    lex vars (flatTextB lead ds rest trail) = .ok (flatToks ds (plainOf rest)) := lex_flatB vars lead ds rest trail hlead htrail hds hrest

/-- the token list does not depend on the layout of blanks -/
theorem C04_layout_independent (vars : List Str) (lead ds : Str) (rest : FlatRestB) (trail : Str) (hlead : AllSp lead) (htrail : AllSp trail)
    (hds : GoodNum ds) (hrest : GoodRestB rest) :
    lex vars (flatTextB lead ds rest trail) = lex vars (flatText ds (plainOf rest)) := by
  rw [lex_flatB vars lead ds rest trail hlead htrail hds hrest, lex_flat vars ds (plainOf rest) hds]
  intro t ht
  simp only [plainOf, List.mem_map] at ht
  obtain ⟨u, hu, rfl⟩ := ht
  exact ⟨(hrest u hu).2.1, (hrest u hu).2.2.2⟩

theorem flatPairs_opsIn (rest : FlatRest) (hrest : GoodRest rest) : OpsIn ranks (flatPairs rest) := by
  intro o ho
  simp only [ops, flatPairs, List.map_map, List.mem_map, Function.comp] at ho
  obtain ⟨t, ht, rfl⟩ := ho
  have hr := opInfo_ranked (t.1, t.2.1) (hrest t ht).1
  simp only [List.any_eq_true] at hr
  obtain ⟨r, hrm, hrc⟩ := hr
  exact ⟨fun o => r.contains (String.ofList o), by simp only [ranks, List.mem_map]; exact ⟨r, hrm, rfl⟩, hrc⟩

/-- **scanner, tree builder and evaluator composed** on flat arithmetic -/
theorem C04_flat_value (vars : VarEnv) (ds : Str) (rest : FlatRest) (hds : GoodNum ds) (hrest : GoodRest rest) :
    tokenize vars (flatText ds rest) =
      (evalTree vars (3 * (flatText ds rest).length + 9)
        (refL ranks.reverse (Tree.leaf ⟨.num, ds, false⟩) (flatPairs rest)) >>= fun v => .ok v.normalise) := by
  unfold tokenize evalFuel
  rw [solveOpp]
  simp only [lex_flat _ ds rest hds hrest, Outcome.bind_ok, toFlat_flatToks, C04_build _ _ (flatPairs_opsIn rest hrest),
    List.isEmpty_nil, Bool.not_true, Bool.false_eq_true, if_false]

/-- non-vacuity: `12+3*4` -/
example : GoodNum "12".toList ∧ GoodRest [("+".toList, .math, "3".toList), ("*".toList, .math, "4".toList)] ∧
    flatText "12".toList [("+".toList, .math, "3".toList), ("*".toList, .math, "4".toList)] = "12+3*4".toList := by
  refine ⟨⟨by decide, by decide⟩, ?_, by decide⟩
  intro t ht
  simp only [List.mem_cons, List.mem_nil_iff, or_false] at ht
  rcases ht with rfl | rfl <;> exact ⟨by decide, by decide, by decide⟩

theorem C04_lex_expr (names : List Str) (hn : NamesOk names) (lead : Str) (a : Atom) (rest : ExprRest) (trail : Str)
    (hlead : AllSp lead) (htrail : AllSp trail) (ha : GoodAtom names a) (hrest : GoodExprRest names rest) :
    lex names (exprText lead a rest trail) = .ok (exprToks a rest) := lex_expr names hn lead a rest trail hlead htrail ha hrest

theorem exprPairs_opsIn (names : List Str) (rest : ExprRest) (hrest : GoodExprRest names rest) : OpsIn ranks (exprPairs rest) := by
  intro o ho
  simp only [ops, exprPairs, List.map_map, List.mem_map, Function.comp] at ho
  obtain ⟨t, ht, rfl⟩ := ho
  have hr := opInfo_ranked (t.2.1, t.2.2.1) (hrest t ht).2.1
  simp only [List.any_eq_true] at hr
  obtain ⟨r, hrm, hrc⟩ := hr
  exact ⟨fun o => r.contains (String.ofList o), by simp only [ranks, List.mem_map]; exact ⟨r, hrm, rfl⟩, hrc⟩

/-- **scanner, tree builder and evaluator composed** on flat expressions over numbers, names, TRUE/FALSE and strings -/
theorem C04_expr_value (vars : VarEnv) (hn : NamesOk (vars.map (·.1))) (lead : Str) (a : Atom) (rest : ExprRest) (trail : Str)
    (hlead : AllSp lead) (htrail : AllSp trail) (ha : GoodAtom (vars.map (·.1)) a) (hrest : GoodExprRest (vars.map (·.1)) rest) :
    tokenize vars (exprText lead a rest trail) =
      (evalTree vars (3 * (exprText lead a rest trail).length + 9)
        (refL ranks.reverse (Tree.leaf a.tok) (exprPairs rest)) >>= fun v => .ok v.normalise) := by
  unfold tokenize evalFuel
  rw [solveOpp]
  simp only [lex_expr _ hn lead a rest trail hlead htrail ha hrest, Outcome.bind_ok, toFlat_exprToks,
    C04_build _ _ (exprPairs_opsIn _ rest hrest), List.isEmpty_nil, Bool.not_true, Bool.false_eq_true, if_false]

theorem C04_lex_name (names : List Str) (x : Str) (hin : names.contains x = true) (hlen : 0 < x.length) (hc : NameStart (x[0])) :
    lex names x = .ok [⟨.var, x, false⟩] := lex_name names x hin hlen hc

end Duckling.Props.C04
