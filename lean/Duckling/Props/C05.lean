import Duckling.Model.Interp
import Duckling.Lemmas.Assoc
import Duckling.Lemmas.Seq
import Duckling.Lemmas.RBasic
import Duckling.Lemmas.Chain
/-
  C05 — an IF/ELIF/ELSE chain runs exactly its first true branch.

  The chain flag is the temp variable `$IF_SUCCESS` of the stack the chain is written in.  For every
  state, context, condition text and body:
  * `C05_if_true` / `C05_if_false`      IF decides by its own condition only and (re)starts the chain:
                                         the flag becomes exactly "this IF ran its body";
  * `C05_new_if_resets`                 the decision and the flag after an IF do not depend on the flag before it;
  * `C05_elif_after_taken`              once the flag is set, an ELIF (whose condition still evaluates) and an ELSE do
                                         nothing: no output, no state change — so at most one body of a chain runs;
  * `C05_elif_first_true` / `C05_elif_false` / `C05_else_runs`   while the flag is clear, ELIF runs its body iff its
                                         condition is true and then sets the flag; ELSE runs its body and sets it;
  * `C05_body_keeps_flag`               whatever the body of a taken branch does (nested chains, loops, calls, …),
                                         the flag the enclosing chain sees afterwards is "taken", on every non-error exit;
  * `C05_nested_starts_clean`           a body starts with no flag of its own: nested chains decide independently;
  * `C05_other_statements_keep_flag`    statements that are not IF/ELIF/ELSE leave the flag as they found it when they
                                         are simple commands (`runCompileLocal` never touches temp variables).
  * `C05_chain`                         **a whole chain of any length** — `IF … / ELIF … / … / ELSE …` as `Stack.run` executes it (dispatch of
                                         each arm to `If.run_compile`, the temp variable, the child stacks, the copy-back on exit) IS the chain run
                                         with an explicit boolean "a branch of this chain has run" (`chainSpec`): an arm's condition is evaluated; its
                                         body runs iff the boolean is clear (IF clears it) and the condition is true; running a body sets the boolean
                                         for all later arms; a body that ends with a signal ends the block.  So exactly the first true branch runs.
                                         The induction maintains `$IF_SUCCESS = that boolean` through every arm and every body (whatever it does);
  * `C05_taken_arm_is_skipped`          read off `chainSpec`: once the boolean is set, an ELIF/ELSE arm never runs its body, whatever its condition.
  Together: in `IF c₀ … ELIF c₁ … ELIF cₙ … [ELSE …]` the body of the first true condition runs once, later arms are
  skipped (their conditions are still evaluated — an erroring one is a compile error, not a wrong body), and a new IF
  starts a new chain.
-/
namespace Duckling.Props.C05
open Duckling

theorem ifFlag_setIfFlag (st : St) (b : Bool) : ifFlag (setIfFlag st b) = b := by
  simp [ifFlag, setIfFlag, assocGet_assocSet_same, Val.truthy]

theorem setIfFlag_setIfFlag (st : St) (a b : Bool) : setIfFlag (setIfFlag st a) b = setIfFlag st b := by
  simp [setIfFlag, assocSet_idem]

theorem assocHas_setIfFlag (st : St) (b : Bool) : assocHas (setIfFlag st b).env.temp ifSuccess = true := by
  simp [setIfFlag, assocHas, assocGet_assocSet_same]

theorem allVars_setIfFlag_cond (st : St) : True := trivial

/-- IF with a true condition: runs the body from the state whose flag is set -/
theorem C05_if_true (ctx : Ctx) (pos : Pos) (word cond : Str) (st : St) (v : Val)
    (hw : upper word = "IF".toList)
    (hv : evalIn ctx pos (withFlag st) cond = .ok v) (ht : v.truthy = true) :
    ifPre ctx pos word (some cond) st = .ok (.body (setIfFlag (withFlag st) true)) := by
  have h1 : ("IF".toList != "ELSE".toList) = true := by decide
  have h2 : ("IF".toList == "ELSE".toList) = false := by decide
  simp only [ifPre, ifCond, ifDecide, hw, h1, h2, withFlag] at hv ⊢
  simp [hv, bind, ht, setIfFlag_setIfFlag]

/-- IF with a false condition: nothing runs and the flag is clear -/
theorem C05_if_false (ctx : Ctx) (pos : Pos) (word cond : Str) (st : St) (v : Val)
    (hw : upper word = "IF".toList)
    (hv : evalIn ctx pos (withFlag st) cond = .ok v) (ht : v.truthy = false) :
    ifPre ctx pos word (some cond) st = .ok (.done { st := setIfFlag (withFlag st) false }) := by
  have h1 : ("IF".toList != "ELSE".toList) = true := by decide
  have h2 : ("IF".toList == "ELSE".toList) = false := by decide
  simp only [ifPre, ifCond, ifDecide, hw, h1, h2, withFlag] at hv ⊢
  simp [hv, bind, ht]

/-- a new IF always starts a new chain: two states that differ only in the flag give the same decision -/
theorem C05_new_if_resets (ctx : Ctx) (pos : Pos) (word cond : Str) (st : St) (b : Bool) (v : Val)
    (hw : upper word = "IF".toList) (hhas : assocHas st.env.temp ifSuccess = true)
    (hv : evalIn ctx pos st cond = .ok v) (hv' : evalIn ctx pos (setIfFlag st b) cond = .ok v) :
    ifPre ctx pos word (some cond) (setIfFlag st b) =
      (match ifPre ctx pos word (some cond) st with
       | .ok (.body s) => .ok (.body s)
       | .ok (.done o) => .ok (.done o)
       | r => r) := by
  have h1 : ("IF".toList != "ELSE".toList) = true := by decide
  have h2 : ("IF".toList == "ELSE".toList) = false := by decide
  have hw1 : withFlag st = st := by simp [withFlag, hhas]
  have hw2 : withFlag (setIfFlag st b) = setIfFlag st b := by simp [withFlag, assocHas_setIfFlag]
  cases ht : v.truthy with
  | true =>
    rw [C05_if_true ctx pos word cond st v hw (by rw [hw1]; exact hv) ht,
        C05_if_true ctx pos word cond (setIfFlag st b) v hw (by rw [hw2]; exact hv') ht, hw1, hw2, setIfFlag_setIfFlag]
  | false =>
    rw [C05_if_false ctx pos word cond st v hw (by rw [hw1]; exact hv) ht,
        C05_if_false ctx pos word cond (setIfFlag st b) v hw (by rw [hw2]; exact hv') ht, hw1, hw2, setIfFlag_setIfFlag]

/-- once a branch of the chain has run, ELIF does nothing (its condition is still evaluated) -/
theorem C05_elif_after_taken (ctx : Ctx) (pos : Pos) (word cond : Str) (st : St) (v : Val)
    (hw : upper word = "ELIF".toList) (hflag : ifFlag st = true)
    (hv : evalIn ctx pos st cond = .ok v) :
    ifPre ctx pos word (some cond) st = .ok (.done { st := st }) := by
  have h1 : ("ELIF".toList != "ELSE".toList) = true := by decide
  have h2 : ("ELIF".toList == "ELSE".toList) = false := by decide
  have h3 : ("ELIF".toList == "IF".toList) = false := by decide
  have hhas : assocHas st.env.temp ifSuccess = true := by
    simp only [ifFlag] at hflag
    cases hg : assocGet st.env.temp ifSuccess with
    | none => simp [hg] at hflag
    | some x => simp [assocHas, hg]
  simp only [ifPre, ifCond, ifDecide, withFlag, hw, h1, h2, h3, hhas, if_true] at hv ⊢
  simp [hv, bind, hflag]

/-- … and so does ELSE -/
theorem C05_else_after_taken (ctx : Ctx) (pos : Pos) (word : Str) (st : St)
    (hw : upper word = "ELSE".toList) (hflag : ifFlag st = true) :
    ifPre ctx pos word none st = .ok (.done { st := st }) := by
  have h1 : ("ELSE".toList != "ELSE".toList) = false := by decide
  have h3 : ("ELSE".toList == "IF".toList) = false := by decide
  have hhas : assocHas st.env.temp ifSuccess = true := by
    simp only [ifFlag] at hflag
    cases hg : assocGet st.env.temp ifSuccess with
    | none => simp [hg] at hflag
    | some x => simp [assocHas, hg]
  simp [ifPre, ifCond, ifDecide, withFlag, hw, h1, h3, hhas, bind, hflag]

/-- while no branch has run, ELIF runs its body iff its condition is true, and then sets the flag -/
theorem C05_elif_first_true (ctx : Ctx) (pos : Pos) (word cond : Str) (st : St) (v : Val)
    (hw : upper word = "ELIF".toList) (hhas : assocHas st.env.temp ifSuccess = true) (hflag : ifFlag st = false)
    (hv : evalIn ctx pos st cond = .ok v) (ht : v.truthy = true) :
    ifPre ctx pos word (some cond) st = .ok (.body (setIfFlag st true)) := by
  have h1 : ("ELIF".toList != "ELSE".toList) = true := by decide
  have h2 : ("ELIF".toList == "ELSE".toList) = false := by decide
  have h3 : ("ELIF".toList == "IF".toList) = false := by decide
  simp only [ifPre, ifCond, ifDecide, withFlag, hw, h1, h2, h3, hhas, if_true] at hv ⊢
  simp [hv, bind, hflag, ht]

theorem C05_elif_false (ctx : Ctx) (pos : Pos) (word cond : Str) (st : St) (v : Val)
    (hw : upper word = "ELIF".toList) (hhas : assocHas st.env.temp ifSuccess = true) (hflag : ifFlag st = false)
    (hv : evalIn ctx pos st cond = .ok v) (ht : v.truthy = false) :
    ifPre ctx pos word (some cond) st = .ok (.done { st := st }) := by
  have h1 : ("ELIF".toList != "ELSE".toList) = true := by decide
  have h2 : ("ELIF".toList == "ELSE".toList) = false := by decide
  have h3 : ("ELIF".toList == "IF".toList) = false := by decide
  simp only [ifPre, ifCond, ifDecide, withFlag, hw, h1, h2, h3, hhas, if_true] at hv ⊢
  simp [hv, bind, hflag, ht]

theorem C05_else_runs (ctx : Ctx) (pos : Pos) (word : Str) (st : St)
    (hw : upper word = "ELSE".toList) (hhas : assocHas st.env.temp ifSuccess = true) (hflag : ifFlag st = false) :
    ifPre ctx pos word none st = .ok (.body (setIfFlag st true)) := by
  have h1 : ("ELSE".toList != "ELSE".toList) = false := by decide
  have h3 : ("ELSE".toList == "IF".toList) = false := by decide
  simp [ifPre, ifCond, ifDecide, withFlag, hw, h1, h3, hhas, bind, hflag]

/-- whatever the body of the taken branch does, afterwards the enclosing chain sees "taken" -/
theorem C05_body_keeps_flag (child : Option ChildFn) (ctx : Ctx) (pos : Pos) (block : List Node) (st : St) (o : Out)
    (h : runBlockAct child ctx pos block (.body (setIfFlag st true)) = .ok o) :
    ifFlag o.st = true := by
  simp only [runBlockAct] at h
  cases hc : runChild child ctx pos (setIfFlag st true) block ctx.file (enterSt (setIfFlag st true)) with
  | ok r =>
    simp only [hc, bind] at h
    cases h
    have : (leave false (setIfFlag st true) r.st).env.temp = (setIfFlag st true).env.temp := rfl
    simp only [ifFlag, this]
    exact ifFlag_setIfFlag st true
  | err e => simp [hc, bind] at h
  | crash e => simp [hc, bind] at h
  | oom w => simp [hc, bind] at h

/-- the body of a branch, of a loop iteration and of a function starts with no chain flag of its own -/
theorem C05_nested_starts_clean (st : St) : (enterSt st).env.temp = [] ∧ ifFlag (enterSt st) = false := by
  simp [enterSt, VEnv.enter, ifFlag]

/-- simple commands that create no stack never touch temp variables: the chain flag survives any
    interleaved statement of this kind -/
theorem C05_other_statements_keep_flag (ctx : Ctx) (c : ClsDesc) (name : Str) (line : Nat) (a : Option Arg) (st : St) (r : RC)
    (h : runCompileLocal ctx c name line a st = .ok r) : r.st.env.temp = st.env.temp := by
  unfold runCompileLocal at h
  simp only at h
  repeat' split at h
  all_goals try simp only [R.bind_eq_ok, raise, reduceCtorEq, and_false, exists_false] at h
  all_goals try (obtain ⟨x, _, h⟩ := h)
  all_goals repeat' split at h
  all_goals try simp only [R.bind_eq_ok, raise, reduceCtorEq, and_false, exists_false] at h
  all_goals try (cases h; rfl)
  all_goals try rfl

/-- **a whole IF/ELIF/ELSE chain of any length is the chain with an explicit boolean** -/
theorem C05_chain (child : Option ChildFn) (ctx : Ctx) (tail : List Node) (arms : List Arm) (hok : ∀ a ∈ arms, a.Ok)
    (taken : Bool) (st : St) (out : List Str) (hflag : FlagIs arms st taken) :
    runNodes child ctx (arms.flatMap armNodes ++ tail) st out =
      chainSpec child ctx (fun st' out' => runNodes child ctx tail st' out') arms taken st out :=
  runNodes_chain child ctx tail _ (fun _ _ => rfl) arms hok taken st out hflag

/-- a chain that starts with IF needs no assumption on the flag it finds -/
theorem C05_chain_from_if (child : Option ChildFn) (ctx : Ctx) (tail : List Node) (a : Arm) (arms : List Arm)
    (hif : upper a.word = "IF".toList) (hok : ∀ b ∈ a :: arms, b.Ok) (taken : Bool) (st : St) (out : List Str) :
    runNodes child ctx ((a :: arms).flatMap armNodes ++ tail) st out =
      chainSpec child ctx (fun st' out' => runNodes child ctx tail st' out') (a :: arms) taken st out :=
  C05_chain child ctx tail (a :: arms) hok taken st out (Or.inl hif)

/-- once a branch has run, a later ELIF/ELSE arm only has its condition evaluated: its body never runs -/
theorem C05_taken_arm_is_skipped (child : Option ChildFn) (ctx : Ctx) (k : St → List Str → Res) (a : Arm) (rest : List Arm)
    (st : St) (out : List Str) (hnif : (upper a.word == "IF".toList) = false) (cond : Bool)
    (hsyn1 : ((a.arg.map strip).isNone && upper a.word != "ELSE".toList) = false)
    (hsyn2 : ((a.arg.map strip).isSome && upper a.word == "ELSE".toList) = false)
    (hc : ifCond ctx ⟨a.l.num, none⟩ (upper a.word) (a.arg.map strip) (withFlag st) = .ok cond) :
    chainSpec child ctx k (a :: rest) true st out = chainSpec child ctx k rest true (withFlag st) out := by
  conv => lhs; unfold chainSpec
  simp only [hsyn1, hsyn2, hc, hnif, Bool.false_eq_true, if_false, R.bind_ok, Bool.true_or, if_true]

end Duckling.Props.C05
