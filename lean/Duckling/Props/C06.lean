import Duckling.Model.Interp
import Duckling.Lemmas.Assoc
import Duckling.Lemmas.RBasic
/-
  C06 — loops iterate exactly as written; BREAK/CONTINUE hit the innermost loop.

  * `C06_signal_table`          what a finished iteration means: CONTINUE and NORMAL go on, BREAK stops the loop with a
                                 NORMAL result, RETURN stops it and keeps propagating;
  * `C06_repeat_exact`          with a count that evaluates to `n` in every state (e.g. a literal, 0 ≤ n ≤ 20000), REPEAT is
                                 `repeatSpec`: iterations for counter values `0, 1, …, n-1` in order, each in a fresh child of the
                                 current state, stopping early only on BREAK / RETURN / an error — never because the budget ran out;
  * `C06_counter_bound`         inside iteration `i` the counter variable holds the integer `i`;
  * `C06_counter_gone`          a counter name that was not visible at loop entry does not exist after any iteration;
  * `C06_repeat_result_signal` / `C06_while_result_signal`    whatever happens inside, a finished REPEAT or WHILE yields NORMAL or RETURN — BREAK and CONTINUE
                                 never leave the loop that caught them, so an enclosing loop carries on;
  * `C06_while_iteration`       WHILE evaluates its condition in the iteration's fresh child of the *current* state (counter
                                 bound to the number of completed iterations) before every iteration and stops, keeping the
                                 output so far, the first time it is false;
  * `C06_while_sound` / `C06_while_complete`   **WHILE is its big-step reading** (`WhileRuns`, a relation with no budget and no limit): the
                                 loop returns `o` iff the iterations written out one after the other — counter = completed iterations,
                                 condition evaluated in the iteration's fresh child of the CURRENT state, body run while it is true, BREAK /
                                 RETURN ending it, CONTINUE / NORMAL going on — end in `o` after `n` evaluations of the condition, for any budget of at least `n`
                                 (so the 20 000 limit never changes the result of a loop that ends by itself);
  * `C06_signal_through_if`     the body of an IF/ELIF/ELSE hands its signal on unchanged, from any nesting depth;
  * `C06_signal_stops_block`    a command that yields a signal ends its block at once; the output produced before it, and its own, is kept in order;
  * `C06_break_continue_emit`   BREAK_LOOP/BREAKLOOP and CONTINUE_LOOP/CONTINUELOOP/CONTINUE emit nothing and only set the signal.
-/
namespace Duckling.Props.C06
open Duckling

theorem C06_signal_table :
    shouldBreak .cont = none ∧ shouldBreak .normal = none ∧ shouldBreak .brk = some .normal ∧ shouldBreak .ret = some .ret :=
  ⟨rfl, rfl, rfl, rfl⟩

/-- REPEAT as a specification: `k` iterations still to do, the next one with counter value `count` -/
def repeatSpec (child : Option ChildFn) (ctx : Ctx) (pos : Pos) (var : Option Str) (body : List Node) :
    Nat → Nat → St → List Str → Res
  | 0, _, st, out => .ok { st := st, out := out, sig := .normal }
  | k + 1, count, st, out =>
    guardChild child ctx pos st <|
    bindCounter ctx pos st var count (enterSt st) >>= fun cst =>
    runChild child ctx pos st body ctx.file cst >>= fun r =>
    match afterIter st out r with
    | (st', out', some s) => .ok { st := st', out := out', sig := s }
    | (st', out', none) => repeatSpec child ctx pos var body k (count + 1) st' out'

theorem C06_repeat_exact (child : Option ChildFn) (ctx : Ctx) (pos : Pos) (var : Option Str) (ce : Str) (body : List Node)
    (n : Nat) (hcount : ∀ st, tokenizeCount ctx pos st ce = .ok n)
    (budget count : Nat) (st : St) (out : List Str) (hle : count ≤ n) (hb : n - count < budget) :
    repeatLoop child ctx pos var ce body budget count st out = repeatSpec child ctx pos var body (n - count) count st out := by
  induction budget generalizing count st out with
  | zero => omega
  | succ b ih =>
    unfold repeatLoop
    simp only [hcount, R.bind_ok]
    by_cases hc : count < n
    · have hk : n - count = (n - (count + 1)) + 1 := by omega
      rw [hk]
      simp only [hc, decide_true, Bool.not_true, Bool.false_eq_true, if_false, repeatSpec]
      cases child with
      | none => rfl
      | some c =>
        simp only [guardChild]
        cases hbc : bindCounter ctx pos st var count (enterSt st) with
        | ok cst =>
          simp only [R.bind_ok]
          cases hr : runChild (some c) ctx pos st body ctx.file cst with
          | ok r =>
            simp only [R.bind_ok]
            rcases ha : afterIter st out r with ⟨st', out', s⟩
            cases s with
            | some s => rfl
            | none =>
              have h1 : count + 1 ≤ n := by omega
              have h2 : n - (count + 1) < b := by omega
              exact ih (count + 1) st' out' h1 h2
          | err e => rfl
          | crash e => rfl
          | oom w => rfl
        | err e => rfl
        | crash e => rfl
        | oom w => rfl
    · have : n - count = 0 := by omega
      simp [hc, this, repeatSpec]

/-- the statement-level form: a REPEAT with a block starts with a budget that is never exhausted -/
theorem C06_repeat_statement (child : Option ChildFn) (ctx : Ctx) (pos : Pos) (var : Option Str) (ce : Str) (block : List Node)
    (st : St) (n : Nat) (hn : n ≤ repeatLimit) (hcount : ∀ st, tokenizeCount ctx pos st ce = .ok n) :
    runBlockAct child ctx pos block (.repeat var ce st) = repeatSpec child ctx pos var block n 0 st [] := by
  simp only [runBlockAct]
  exact C06_repeat_exact child ctx pos var ce block n hcount _ 0 st [] (Nat.zero_le _) (by omega)

theorem C06_counter_bound (ctx : Ctx) (pos : Pos) (st cst cst' : St) (v : Str) (i : Nat)
    (h : bindCounter ctx pos st (some v) i cst = .ok cst') :
    assocGet cst'.env.user v = some (.int i) ∧ isVar v false = true := by
  unfold bindCounter at h
  by_cases hv : isVar v false = true
  · simp only [hv, Bool.not_true, Bool.false_eq_true, if_false] at h
    cases h
    exact ⟨assocGet_assocSet_same _ _ _, hv⟩
  · have : isVar v false = false := by simpa using hv
    simp [this, raise] at h

theorem C06_counter_gone (st : St) (out : List Str) (r : Out) (v : Str) (hfresh : assocHas st.env.user v = false) :
    assocHas (afterIter st out r).1.env.user v = false := by
  have := assocGet_copyBack st.env.user r.st.env.user v
  simp only [afterIter, leave, VEnv.exitNormal, assocHas]
  have h2 : assocGet (copyBack st.env.user r.st.env.user) v = none := by simpa [hfresh] using this
  simpa [copyBack] using congrArg Option.isSome h2

theorem C06_repeat_result_signal (child : Option ChildFn) (ctx : Ctx) (pos : Pos) (var : Option Str) (ce : Str) (body : List Node)
    (budget count : Nat) (st : St) (out : List Str) (o : Out)
    (h : repeatLoop child ctx pos var ce body budget count st out = .ok o) : o.sig = .normal ∨ o.sig = .ret := by
  induction budget generalizing count st out with
  | zero => simp only [repeatLoop] at h; cases h; exact Or.inl rfl
  | succ b ih =>
    unfold repeatLoop at h
    simp only [R.bind_eq_ok] at h
    obtain ⟨n, _, h⟩ := h
    split at h
    · cases h; exact Or.inl rfl
    · cases child with
      | none => simp [guardChild, overflowErr] at h
      | some c =>
        simp only [guardChild, R.bind_eq_ok] at h
        obtain ⟨cst, _, r, _, h⟩ := h
        split at h
        · rename_i st' out' s heq
          cases h
          simp only [afterIter, Prod.mk.injEq] at heq
          have := heq.2.2
          cases hs : r.sig <;> simp [shouldBreak, hs] at this <;> simp [← this]
        · exact ih _ _ _ h

theorem C06_while_result_signal (child : Option ChildFn) (ctx : Ctx) (pos : Pos) (var : Option Str) (cond : Str) (body : List Node)
    (budget count : Nat) (st : St) (out : List Str) (o : Out)
    (h : whileLoop child ctx pos var cond body budget count st out = .ok o) : o.sig = .normal ∨ o.sig = .ret := by
  induction budget generalizing count st out with
  | zero => simp [whileLoop, raise] at h
  | succ b ih =>
    unfold whileLoop at h
    cases child with
    | none => simp [guardChild, overflowErr] at h
    | some c =>
      simp only [guardChild, R.bind_eq_ok] at h
      obtain ⟨cst, _, cv, _, h⟩ := h
      split at h
      · cases h; exact Or.inl rfl
      · simp only [R.bind_eq_ok] at h
        obtain ⟨r, _, h⟩ := h
        split at h
        · rename_i st' out' s heq
          cases h
          simp only [afterIter, Prod.mk.injEq] at heq
          have := heq.2.2
          cases hs : r.sig <;> simp [shouldBreak, hs] at this <;> simp [← this]
        · exact ih _ _ _ h

/-- one WHILE iteration, spelled out -/
theorem C06_while_iteration (child : ChildFn) (ctx : Ctx) (pos : Pos) (var : Option Str) (cond : Str) (body : List Node)
    (b count : Nat) (st : St) (out : List Str) (cst : St) (cv : Val)
    (hb : bindCounter ctx pos st var count (enterSt st) = .ok cst)
    (hc : evalIn ctx pos cst cond = .ok cv) :
    whileLoop (some child) ctx pos var cond body (b + 1) count st out =
      (if cv.truthy then
        (child body (ctx.child pos ctx.file) cst >>= fun r =>
          match shouldBreak r.sig with
          | some s => .ok { st := leave false st r.st, out := out ++ r.out, sig := s }
          | none => whileLoop (some child) ctx pos var cond body b (count + 1) (leave false st r.st) (out ++ r.out))
       else .ok { st := leave false st cst, out := out, sig := .normal }) := by
  rw [whileLoop]
  simp only [guardChild, hb, hc, R.bind_ok, runChild, afterIter]
  cases cv.truthy
  · simp
  · simp only [Bool.not_true, Bool.false_eq_true, if_false, if_true]
    congr 1
    funext r
    cases shouldBreak r.sig <;> rfl

/-- WHILE read as a big-step relation — no budget, no iteration limit: `WhileRuns … n count st out o` says that starting with `count`
    completed iterations in state `st` with output `out`, the loop ends in `o` after evaluating its condition `n` more times -/
inductive WhileRuns (child : ChildFn) (ctx : Ctx) (pos : Pos) (var : Option Str) (cond : Str) (body : List Node) :
    Nat → Nat → St → List Str → Out → Prop
  | stop (count : Nat) (st : St) (out : List Str) (cst : St) (cv : Val)
      (hb : bindCounter ctx pos st var count (enterSt st) = .ok cst) (hc : evalIn ctx pos cst cond = .ok cv) (hf : cv.truthy = false) :
      WhileRuns child ctx pos var cond body 1 count st out { st := leave false st cst, out := out, sig := .normal }
  | exit (count : Nat) (st : St) (out : List Str) (cst : St) (cv : Val) (r : Out) (s : Sig)
      (hb : bindCounter ctx pos st var count (enterSt st) = .ok cst) (hc : evalIn ctx pos cst cond = .ok cv) (ht : cv.truthy = true)
      (hr : child body (ctx.child pos ctx.file) cst = .ok r) (hs : shouldBreak r.sig = some s) :
      WhileRuns child ctx pos var cond body 1 count st out { st := leave false st r.st, out := out ++ r.out, sig := s }
  | step (n count : Nat) (st : St) (out : List Str) (cst : St) (cv : Val) (r : Out) (o : Out)
      (hb : bindCounter ctx pos st var count (enterSt st) = .ok cst) (hc : evalIn ctx pos cst cond = .ok cv) (ht : cv.truthy = true)
      (hr : child body (ctx.child pos ctx.file) cst = .ok r) (hs : shouldBreak r.sig = none)
      (hrest : WhileRuns child ctx pos var cond body n (count + 1) (leave false st r.st) (out ++ r.out) o) :
      WhileRuns child ctx pos var cond body (n + 1) count st out o

/-- whatever the loop returns, it returns because the iterations written out one after the other end that way -/
theorem C06_while_sound (child : ChildFn) (ctx : Ctx) (pos : Pos) (var : Option Str) (cond : Str) (body : List Node)
    (budget count : Nat) (st : St) (out : List Str) (o : Out)
    (h : whileLoop (some child) ctx pos var cond body budget count st out = .ok o) :
    ∃ n, n ≤ budget ∧ WhileRuns child ctx pos var cond body n count st out o := by
  induction budget generalizing count st out with
  | zero => simp [whileLoop, raise] at h
  | succ b ih =>
    cases hb : bindCounter ctx pos st var count (enterSt st) with
    | ok cst =>
      cases hc : evalIn ctx pos cst cond with
      | ok cv =>
        rw [C06_while_iteration child ctx pos var cond body b count st out cst cv hb hc] at h
        cases ht : cv.truthy with
        | false =>
          simp only [ht, Bool.false_eq_true, if_false, R.ok.injEq] at h
          subst h
          exact ⟨1, by omega, .stop count st out cst cv hb hc ht⟩
        | true =>
          simp only [ht, if_true, R.bind_eq_ok] at h
          obtain ⟨r, hr, h⟩ := h
          cases hs : shouldBreak r.sig with
          | some s =>
            simp only [hs, R.ok.injEq] at h
            subst h
            exact ⟨1, by omega, .exit count st out cst cv r s hb hc ht hr hs⟩
          | none =>
            simp only [hs] at h
            obtain ⟨n, hn, hw⟩ := ih _ _ _ h
            exact ⟨n + 1, by omega, .step n count st out cst cv r o hb hc ht hr hs hw⟩
      | err e => simp [whileLoop, guardChild, hb, hc, bind] at h
      | crash e => simp [whileLoop, guardChild, hb, hc, bind] at h
      | oom w => simp [whileLoop, guardChild, hb, hc, bind] at h
    | err e => simp [whileLoop, guardChild, hb, bind] at h
    | crash e => simp [whileLoop, guardChild, hb, bind] at h
    | oom w => simp [whileLoop, guardChild, hb, bind] at h

/-- and conversely: iterations that end in `o` after `n` evaluations of the condition are what the loop returns, for ANY budget of at least `n` -/
theorem C06_while_complete (child : ChildFn) (ctx : Ctx) (pos : Pos) (var : Option Str) (cond : Str) (body : List Node)
    (n count : Nat) (st : St) (out : List Str) (o : Out)
    (h : WhileRuns child ctx pos var cond body n count st out o) :
    ∀ budget, n ≤ budget → whileLoop (some child) ctx pos var cond body budget count st out = .ok o := by
  induction h with
  | stop count st out cst cv hb hc hf =>
    intro budget hlt
    obtain ⟨b, rfl⟩ : ∃ b, budget = b + 1 := ⟨budget - 1, by omega⟩
    rw [C06_while_iteration child ctx pos var cond body b count st out cst cv hb hc]
    simp [hf]
  | exit count st out cst cv r s hb hc ht hr hs =>
    intro budget hlt
    obtain ⟨b, rfl⟩ : ∃ b, budget = b + 1 := ⟨budget - 1, by omega⟩
    rw [C06_while_iteration child ctx pos var cond body b count st out cst cv hb hc]
    simp [ht, hr, hs]
  | step n count st out cst cv r o hb hc ht hr hs _ ih =>
    intro budget hlt
    obtain ⟨b, rfl⟩ : ∃ b, budget = b + 1 := ⟨budget - 1, by omega⟩
    rw [C06_while_iteration child ctx pos var cond body b count st out cst cv hb hc]
    simp only [ht, if_true, hr, R.bind_ok, hs]
    exact ih b (by omega)

theorem C06_signal_through_if (child : Option ChildFn) (ctx : Ctx) (pos : Pos) (block : List Node) (st : St) (o : Out)
    (h : runBlockAct child ctx pos block (.body st) = .ok o) :
    ∃ r, runChild child ctx pos st block ctx.file (enterSt st) = .ok r ∧ o.sig = r.sig ∧ o.out = r.out := by
  simp only [runBlockAct, R.bind_eq_ok] at h
  obtain ⟨r, hr, h⟩ := h
  cases h
  exact ⟨r, hr, rfl, rfl⟩

theorem C06_signal_stops_block (child : Option ChildFn) (ctx : Ctx) (l : PreLine) (rest : List Node) (st : St) (out : List Str) (r : Out)
    (hs : stepCmd child ctx l (nextBlock rest) st = .ok r) (hsig : r.sig ≠ .normal) :
    runNodes child ctx (.line l :: rest) st out = .ok { st := r.st, out := out ++ r.out, sig := r.sig } := by
  simp [runNodes, hs, hsig]

theorem C06_break_continue_emit (ctx : Ctx) (c : ClsDesc) (name : Str) (line : Nat) (a : Option Arg) (st : St)
    (hh : hasHook c "run_compile" = true) :
    (c.cname = "BreakLoop" → runCompileLocal ctx c name line a st = .ok { st := st, out := [], sig := some .brk }) ∧
    (c.cname = "ContinueLoop" → runCompileLocal ctx c name line a st = .ok { st := st, out := [], sig := some .cont }) := by
  constructor <;> intro hc <;> simp [runCompileLocal, hh, hc]

end Duckling.Props.C06
