import Duckling.Model.Compile
import Duckling.Lemmas.Assoc
import Duckling.Lemmas.RBasic
/-
  C07 — RUN binds arguments positionally; RETURN leaves exactly one function.

  * `C07_latest_definition`    FUNC stores the definition under its name, replacing an older one: RUN finds the latest visible;
  * `C07_bind_positional`      the body starts in a child of the caller's state in which the i-th parameter holds the
                                i-th argument value, for any number of (distinct) parameters;
  * `C07_comma_collects`       the comma operator collects any number of argument values in order (after the `fix:`);
  * `C07_arity` / `C07_undefined`   a wrong argument count / an unknown function is a compile error and no stack is created;
  * `C07_escape`               BREAK or CONTINUE leaving a function body is StackReturnTypeError;
  * `C07_return_ends_function` whatever signal the body ends with (NORMAL or RETURN, raised at any depth inside it), the RUN
                                statement itself is NORMAL: the caller continues after the call; the body's output is spliced in place;
  * `C07_toplevel_return`      at top level RETURN ends the program: the output produced so far is the result and no warning is added.
-/
namespace Duckling.Props.C07
open Duckling

theorem C07_latest_definition (fs : List (Str × Func)) (name : Str) (f : Func) :
    assocGet (assocSet fs name f) name = some f := assocGet_assocSet_same fs name f

theorem foldl_bind_keep (pairs : List (Str × Val)) (w : List (Str × Val)) (x : Str)
    (hnot : ∀ q ∈ pairs, q.1 ≠ x) :
    assocGet (pairs.foldl (fun u pv => assocSet u pv.1 pv.2) w) x = assocGet w x := by
  induction pairs generalizing w with
  | nil => rfl
  | cons q qs ih =>
    simp only [List.foldl_cons]
    rw [ih _ (fun q' hq' => hnot q' (List.mem_cons_of_mem _ hq'))]
    exact assocGet_assocSet_other _ _ _ _ (Ne.symm (hnot q (by simp)))

/-- binding a list of (name, value) pairs one after the other -/
theorem foldl_bind_get (pairs : List (Str × Val)) (u : List (Str × Val)) (x : Str) (v : Val)
    (hmem : (x, v) ∈ pairs) (hnd : (pairs.map (·.1)).Nodup) :
    assocGet (pairs.foldl (fun u pv => assocSet u pv.1 pv.2) u) x = some v := by
  induction pairs generalizing u with
  | nil => cases hmem
  | cons p rest ih =>
    simp only [List.map_cons, List.nodup_cons] at hnd
    simp only [List.foldl_cons]
    rcases List.mem_cons.mp hmem with h | h
    · subst h
      rw [foldl_bind_keep rest _ x (fun q hq he => hnd.1 (List.mem_map.mpr ⟨q, hq, he⟩))]
      exact assocGet_assocSet_same u x v
    · exact ih _ h hnd.2

theorem C07_bind_positional (ctx : Ctx) (pos : Pos) (a : Arg) (st : St) (fn : Func) (cst : St)
    (h : runPre ctx pos a st = .ok (fn, cst)) (hnd : fn.params.Nodup) :
    ∃ vals : List Val, runArgs ctx pos st (breakArg a.str).2 = .ok vals ∧ vals.length = fn.params.length ∧
      (∀ i (hi : i < fn.params.length) (hv : i < vals.length), assocGet cst.env.user fn.params[i] = some vals[i]) ∧
      cst.env.funcs = st.env.funcs ∧ cst.env.temp = [] ∧ cst.prints = st.prints := by
  unfold runPre at h
  simp only [R.bind_eq_ok] at h
  obtain ⟨vals, hvals, h⟩ := h
  split at h
  · simp [raise] at h
  · rename_i fn' hf
    split at h
    · simp [raise] at h
    · rename_i hlen
      split at h
      · cases h
      · simp only [R.ok.injEq, Prod.mk.injEq] at h
        obtain ⟨rfl, rfl⟩ := h
        have hl : fn'.params.length = vals.length := by simpa using hlen
        refine ⟨vals, hvals, hl.symm, ?_, rfl, rfl, rfl⟩
        intro i hi hv
        apply foldl_bind_get
        · rw [List.mem_iff_getElem]
          exact ⟨i, by simp only [List.length_zip]; omega, by simp⟩
        · rw [List.map_fst_zip]
          · exact hnd
          · omega

theorem binop_comma_list (xs : List Val) (v : Val) : Val.binop "," (.list xs) v = .ok (.list (xs ++ [v])) := by
  simp [Val.binop]

theorem C07_comma_collects (v0 v1 : Val) (vs : List Val) (h0 : ∀ l, v0 ≠ .list l) :
    (do let first ← Val.binop "," v0 v1
        vs.foldlM (fun acc v => Val.binop "," acc v) first) = (.ok (.list ([v0, v1] ++ vs)) : Outcome Val) := by
  have hfirst : Val.binop "," v0 v1 = .ok (.list [v0, v1]) := by
    cases v0 <;> simp_all [Val.binop]
  rw [hfirst]
  simp only [Outcome.bind_ok]
  generalize [v0, v1] = acc
  induction vs generalizing acc with
  | nil => simp [List.foldlM]
  | cons v rest ih =>
    simp only [List.foldlM, binop_comma_list, Outcome.bind_ok]
    rw [ih]
    simp

/-- the values RUN passes are exactly the elements of the comma list, in order -/
theorem C07_args_are_list_elements (ctx : Ctx) (pos : Pos) (st : St) (vs : Str) (l : List Val)
    (hne : (strip vs).isEmpty = false) (hv : evalIn ctx pos st vs = .ok (.list l)) :
    runArgs ctx pos st (some vs) = .ok l := by
  simp [runArgs, hne, hv]

theorem C07_arity (ctx : Ctx) (pos : Pos) (a : Arg) (st : St) (fn : Func)
    (hname : (breakArg a.str).2 = none) (hf : assocGet st.env.funcs (breakArg a.str).1 = some fn) (hp : fn.params ≠ []) :
    runPre ctx pos a st = raise ctx pos st .invalidArguments := by
  have : fn.params.length ≠ 0 := by simpa using hp
  simp [runPre, runArgs, hname, hf, this]

theorem C07_undefined (child : Option ChildFn) (ctx : Ctx) (pos : Pos) (a : Arg) (st : St)
    (hname : (breakArg a.str).2 = none) (hf : assocGet st.env.funcs (breakArg a.str).1 = none) :
    runRun child ctx pos a st = raise ctx pos st .varIsNonExistent := by
  simp [runRun, runPre, runArgs, hname, hf, raise]

theorem C07_escape (ctx : Ctx) (pos : Pos) (st : St) (r : Out) (h : r.sig = .brk ∨ r.sig = .cont) :
    runPost ctx pos st r = raise ctx pos (leave false st r.st) .stackReturnType := by
  rcases h with h | h <;> simp [runPost, h]

theorem C07_return_ends_function (child : Option ChildFn) (ctx : Ctx) (pos : Pos) (a : Arg) (st : St) (rc : RC)
    (h : runRun child ctx pos a st = .ok rc) :
    rc.sig = some .normal ∧
    ∃ p r, runPre ctx pos a st = .ok p ∧ runChild child ctx pos st p.1.code (funcFile ctx p.1) p.2 = .ok r ∧
      (r.sig = .normal ∨ r.sig = .ret) ∧ rc.out = r.out ∧ rc.st = leave false st r.st := by
  simp only [runRun, R.bind_eq_ok] at h
  obtain ⟨p, hp, r, hr, hpost⟩ := h
  unfold runPost at hpost
  by_cases hs : (r.sig == .brk || r.sig == .cont) = true
  · simp [hs, raise] at hpost
  · simp only [hs, Bool.false_eq_true, if_false, R.ok.injEq] at hpost
    subst hpost
    refine ⟨rfl, p, r, hp, hr, ?_, rfl, rfl⟩
    cases hsig : r.sig <;> simp_all

theorem C07_toplevel_return (st : St) : startBaseWarn st .ret = st ∧ startBaseWarn st .normal = st := by
  simp [startBaseWarn]

end Duckling.Props.C07
