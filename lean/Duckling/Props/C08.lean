import Duckling.Model.Interp
import Duckling.Lemmas.Assoc
import Duckling.Lemmas.ScopedRef
import Duckling.Lemmas.RBasic
/-
  C08 — blocks see and update outer variables; what they create dies with them.

  The interpreter enters a block with `enterSt` (`append_env` into a fresh environment) and leaves it
  with `leave` (`update_from_env`, or `append_env` for START/STARTENV) on *every* exit path that is not
  an error — NORMAL, RETURN, BREAK and CONTINUE all go through the same `leave` (see `runBlockAct`,
  `repeatLoop`, `whileLoop`, `runRun`, `runStart`).  The theorems below are the algebra of that
  copy-in / copy-back, stated for every parent and child environment:

  * `C08_entry_sees_outer`        every variable and function visible at entry is readable inside, with its value;
                                   the IF flag (temp variables) is not inherited;
  * `C08_assignment_propagates`   after a normal exit a name the parent had carries the child's value;
  * `C08_created_inside_dies`     a name the parent did not have is absent after the exit (user, system and functions);
  * `C08_functions_unchanged`     functions of the parent are untouched by a normal exit (a function (re)defined inside dies);
  * `C08_flag_untouched`          the parent's temp variables (the IF flag) are exactly what they were;
  * `C08_fresh_iteration`         each loop iteration starts from the parent's state, not from the previous iteration's child;
  * `C08_parallel_exit_adds`      START / STARTENV: everything the file defined or assigned is visible afterwards;
  * `C08_refines_scoped`          **refinement**: the copy-in / copy-back machine (one full dictionary per live stack: entering copies,
                                   assignment writes the current one, leaving overwrites in the parent's dictionary the names it already had
                                   and drops the child) is the textbook scoped stack of frames (`Spec/Scoped.lean`: lookup innermost-out, assign to
                                   the owning frame or create in the innermost one, push an empty frame, pop) — after ANY history of assignments,
                                   block entries and exits, on any nesting depth, the dictionary the compiler is working with reads exactly what
                                   the frames read: every visible name with its current value, no name a finished block created.  Invariant by
                                   induction over the operations (`refines_step`): domains agree at every depth, current values agree, frames
                                   do not shadow;
  * `C08_machine_is_interpreter`  the three operations of that machine are what the interpreter does to the user variables: `enter`,
                                   `assocSet` (VAR, counters, parameters), `exitNormal`.
  * `C08_repeat_creates_nothing` / `C08_while_creates_nothing` / `C08_block_creates_nothing`   **whole block statements, any body, any number of
                                   iterations, every exit path**: after an IF / ELIF / ELSE body, a REPEAT / FOR or a WHILE (however many
                                   iterations ran, however they ended, whatever the body — the child executor is arbitrary) no user variable
                                   exists that did not exist before the statement: counters, and everything the bodies created, are gone;
  That the interpreter performs these operations at the right moments on every path (the walk over `exec`) is the content of the
  algebraic laws above together with the correspondence against the reference interpreter `harness/refinterp.py`.
-/
namespace Duckling.Props.C08
open Duckling

theorem C08_entry_sees_outer (p : VEnv) :
    p.enter.user = p.user ∧ p.enter.sys = p.sys ∧ p.enter.funcs = p.funcs ∧ p.enter.temp = [] := ⟨rfl, rfl, rfl, rfl⟩

theorem C08_assignment_propagates (p c : VEnv) (x : Str) (hx : assocHas p.user x = true) :
    assocGet (p.exitNormal c).user x = assocGet c.user x := by
  have := assocGet_copyBack p.user c.user x
  simpa [VEnv.exitNormal, copyBack, hx] using this

theorem C08_created_inside_dies (p c : VEnv) (x : Str) (hx : assocHas p.user x = false) :
    assocGet (p.exitNormal c).user x = none ∧ assocHas (p.exitNormal c).user x = false := by
  have := assocGet_copyBack p.user c.user x
  have h : assocGet (p.exitNormal c).user x = none := by simpa [VEnv.exitNormal, copyBack, hx] using this
  exact ⟨h, by simp [assocHas, h]⟩

theorem C08_sys_created_inside_dies (p c : VEnv) (x : Str) (hx : assocHas p.sys x = false) :
    assocGet (p.exitNormal c).sys x = none := by
  have := assocGet_copyBack p.sys c.sys x
  simpa [VEnv.exitNormal, copyBack, hx] using this

theorem C08_functions_unchanged (p c : VEnv) : (p.exitNormal c).funcs = p.funcs := rfl

theorem C08_flag_untouched (parallel : Bool) (parent child : St) : (leave parallel parent child).env.temp = parent.env.temp := by
  cases parallel <;> rfl

/-- what `leave` hands back: variables per the exit mode, warnings and prints of the child (they are global) -/
theorem C08_leave_shared (parallel : Bool) (parent child : St) :
    (leave parallel parent child).warns = child.warns ∧ (leave parallel parent child).prints = child.prints := ⟨rfl, rfl⟩

/-- the state a loop iteration starts in depends on the parent state only -/
theorem C08_fresh_iteration (st : St) : (enterSt st).env = st.env.enter ∧ (enterSt st).prints = st.prints ∧ (enterSt st).warns = st.warns :=
  ⟨rfl, rfl, rfl⟩

/-- after a normal exit the parent has exactly the names it had before (no more) -/
theorem C08_no_new_names (p c : VEnv) : ∀ k ∈ keys (p.exitNormal c).user, k ∈ keys p.user :=
  keys_copyBack_subset p.user c.user

theorem C08_parallel_exit_adds (p c : VEnv) (x : Str) :
    assocHas (p.exitParallel c).user x = (assocHas c.user x || assocHas p.user x) ∧
    assocHas (p.exitParallel c).funcs x = (assocHas c.funcs x || assocHas p.funcs x) := by
  exact ⟨assocHas_assocUpdate p.user c.user x, assocHas_assocUpdate p.funcs c.funcs x⟩

/-- VAR assigns in place: a visible name keeps its position and takes the value; a new one is appended -/
theorem C08_var_assign (u : List (Str × Val)) (x : Str) (v : Val) :
    assocGet (assocSet u x v) x = some v ∧ ∀ y, y ≠ x → assocGet (assocSet u x v) y = assocGet u y :=
  ⟨assocGet_assocSet_same u x v, fun y hy => assocGet_assocSet_other u x y v hy⟩


/-- **the copy-in / copy-back discipline refines the scoped stack of frames** — any history of operations, any depth -/
theorem C08_refines_scoped (e : Spec.Frame) (ops : List Spec.ScOp) (k : Str) :
    (match ops.foldl cstep [e] with
     | cur :: _ => assocGet cur k
     | [] => none) = Spec.lookup (ops.foldl Spec.step [e]) k :=
  (refines_run e ops).2.2.2 k

/-- the machine of `C08_refines_scoped` is the interpreter's environment handling -/
theorem C08_machine_is_interpreter (p c : VEnv) (k : Str) (v : Val) :
    p.enter.user = p.user ∧ (p.exitNormal c).user = copyBack p.user c.user ∧
    cstep [p.user] (.assign k v) = [assocSet p.user k v] ∧ cstep [p.user] .enter = [p.enter.user, p.user] ∧
    cstep [c.user, p.user] .exit = [(p.exitNormal c).user] := ⟨rfl, rfl, rfl, rfl, rfl⟩

/-- a concrete history (non-vacuity): x is assigned in a block and survives it, y is created in the block and dies -/
example :
    let ops : List Spec.ScOp := [.assign "x".toList (.int 1), .enter, .assign "x".toList (.int 2), .assign "y".toList (.int 3), .exit]
    Spec.lookup (ops.foldl Spec.step [[]]) "x".toList = some (.int 2) ∧ Spec.lookup (ops.foldl Spec.step [[]]) "y".toList = none := by
  refine ⟨?_, ?_⟩ <;> rfl

theorem leave_creates_nothing (st cst : St) (x : Str) (h : assocHas st.env.user x = false) :
    assocHas (leave false st cst).env.user x = false := by
  have := assocGet_copyBack st.env.user cst.env.user x
  simp only [leave, VEnv.exitNormal, assocHas]
  have h2 : assocGet (copyBack st.env.user cst.env.user) x = none := by simpa [h] using this
  simpa [copyBack] using congrArg Option.isSome h2

/-- after a REPEAT / FOR — any count expression, any body, any number of iterations, any way of ending — no user variable exists that
    did not exist before it -/
theorem C08_repeat_creates_nothing (child : Option ChildFn) (ctx : Ctx) (pos : Pos) (var : Option Str) (ce : Str) (body : List Node)
    (budget count : Nat) (st : St) (out : List Str) (o : Out) (x : Str)
    (h : repeatLoop child ctx pos var ce body budget count st out = .ok o) (hx : assocHas st.env.user x = false) :
    assocHas o.st.env.user x = false := by
  induction budget generalizing count st out with
  | zero => simp only [repeatLoop] at h; cases h; exact hx
  | succ b ih =>
    unfold repeatLoop at h
    simp only [R.bind_eq_ok] at h
    obtain ⟨n, _, h⟩ := h
    split at h
    · cases h; exact hx
    · cases child with
      | none => simp [guardChild, overflowErr] at h
      | some c =>
        simp only [guardChild, R.bind_eq_ok] at h
        obtain ⟨cst, _, r, _, h⟩ := h
        split at h
        · rename_i st' out' s heq
          cases h
          simp only [afterIter, Prod.mk.injEq] at heq
          rw [← heq.1]
          exact leave_creates_nothing st r.st x hx
        · rename_i st' out' heq
          simp only [afterIter, Prod.mk.injEq] at heq
          exact ih _ _ _ h (by rw [← heq.1]; exact leave_creates_nothing st r.st x hx)

/-- the same for WHILE -/
theorem C08_while_creates_nothing (child : Option ChildFn) (ctx : Ctx) (pos : Pos) (var : Option Str) (cond : Str) (body : List Node)
    (budget count : Nat) (st : St) (out : List Str) (o : Out) (x : Str)
    (h : whileLoop child ctx pos var cond body budget count st out = .ok o) (hx : assocHas st.env.user x = false) :
    assocHas o.st.env.user x = false := by
  induction budget generalizing count st out with
  | zero => simp [whileLoop, raise] at h
  | succ b ih =>
    unfold whileLoop at h
    cases child with
    | none => simp [guardChild, overflowErr] at h
    | some c =>
      simp only [guardChild, R.bind_eq_ok] at h
      obtain ⟨cst, _, cv, _, h⟩ := h
      split at h
      · cases h; exact leave_creates_nothing st cst x hx
      · simp only [R.bind_eq_ok] at h
        obtain ⟨r, _, h⟩ := h
        split at h
        · rename_i st' out' s heq
          cases h
          simp only [afterIter, Prod.mk.injEq] at heq
          rw [← heq.1]
          exact leave_creates_nothing st r.st x hx
        · rename_i st' out' heq
          simp only [afterIter, Prod.mk.injEq] at heq
          exact ih _ _ _ h (by rw [← heq.1]; exact leave_creates_nothing st r.st x hx)

/-- the state a block command starts its work from -/
def _root_.Duckling.BlockAct.st0 : BlockAct → St
  | .done o => o.st
  | .body st => st
  | .repeat _ _ st => st
  | .while _ _ st => st

/-- **what a block statement creates dies with it** — every kind of block command, any body, any number of iterations -/
theorem C08_block_creates_nothing (child : Option ChildFn) (ctx : Ctx) (pos : Pos) (block : List Node) (act : BlockAct) (o : Out) (x : Str)
    (h : runBlockAct child ctx pos block act = .ok o) (hx : assocHas act.st0.env.user x = false) :
    assocHas o.st.env.user x = false := by
  cases act with
  | done o' => simp only [runBlockAct, R.ok.injEq] at h; subst h; exact hx
  | body st =>
    simp only [runBlockAct, R.bind_eq_ok] at h
    obtain ⟨r, _, h⟩ := h
    simp only [R.ok.injEq] at h
    subst h
    exact leave_creates_nothing st r.st x hx
  | «repeat» var ce st => exact C08_repeat_creates_nothing child ctx pos var ce block _ _ st [] o x h hx
  | «while» var cond st => exact C08_while_creates_nothing child ctx pos var cond block _ _ st [] o x h hx

/-- a function call too: whatever the body (parameters included) created is gone after RUN, and the caller's functions are the ones it had -/
theorem C08_run_creates_nothing (child : Option ChildFn) (ctx : Ctx) (pos : Pos) (a : Arg) (st : St) (rc : RC) (x : Str)
    (h : runRun child ctx pos a st = .ok rc) (hx : assocHas st.env.user x = false) :
    assocHas rc.st.env.user x = false ∧ rc.st.env.funcs = st.env.funcs := by
  unfold runRun at h
  simp only [R.bind_eq_ok] at h
  obtain ⟨p, _, r, _, h⟩ := h
  unfold runPost at h
  split at h
  · simp [raise] at h
  · simp only [R.ok.injEq] at h
    subst h
    exact ⟨leave_creates_nothing st r.st x hx, rfl⟩

/-- functions defined inside a loop body or a branch do not exist after the statement: the function table is the one before it -/
theorem C08_block_keeps_functions (child : Option ChildFn) (ctx : Ctx) (pos : Pos) (block : List Node) (act : BlockAct) (o : Out)
    (h : runBlockAct child ctx pos block act = .ok o) : o.st.env.funcs = act.st0.env.funcs := by
  have hrep : ∀ (var : Option Str) (ce : Str) (budget count : Nat) (st : St) (out : List Str) (o : Out),
      repeatLoop child ctx pos var ce block budget count st out = .ok o → o.st.env.funcs = st.env.funcs := by
    intro var ce budget
    induction budget with
    | zero => intro count st out o h; simp only [repeatLoop] at h; cases h; rfl
    | succ b ih =>
      intro count st out o h
      unfold repeatLoop at h
      simp only [R.bind_eq_ok] at h
      obtain ⟨n, _, h⟩ := h
      split at h
      · cases h; rfl
      · cases child with
        | none => simp [guardChild, overflowErr] at h
        | some c =>
          simp only [guardChild, R.bind_eq_ok] at h
          obtain ⟨cst, _, r, _, h⟩ := h
          split at h
          · rename_i st' out' s heq
            cases h
            simp only [afterIter, Prod.mk.injEq] at heq
            rw [← heq.1]; rfl
          · rename_i st' out' heq
            simp only [afterIter, Prod.mk.injEq] at heq
            rw [ih _ _ _ _ h, ← heq.1]; rfl
  have hwh : ∀ (var : Option Str) (cond : Str) (budget count : Nat) (st : St) (out : List Str) (o : Out),
      whileLoop child ctx pos var cond block budget count st out = .ok o → o.st.env.funcs = st.env.funcs := by
    intro var cond budget
    induction budget with
    | zero => intro count st out o h; simp [whileLoop, raise] at h
    | succ b ih =>
      intro count st out o h
      unfold whileLoop at h
      cases child with
      | none => simp [guardChild, overflowErr] at h
      | some c =>
        simp only [guardChild, R.bind_eq_ok] at h
        obtain ⟨cst, _, cv, _, h⟩ := h
        split at h
        · cases h; rfl
        · simp only [R.bind_eq_ok] at h
          obtain ⟨r, _, h⟩ := h
          split at h
          · rename_i st' out' s heq
            cases h
            simp only [afterIter, Prod.mk.injEq] at heq
            rw [← heq.1]; rfl
          · rename_i st' out' heq
            simp only [afterIter, Prod.mk.injEq] at heq
            rw [ih _ _ _ _ h, ← heq.1]; rfl
  cases act with
  | done o' => simp only [runBlockAct, R.ok.injEq] at h; subst h; rfl
  | body st =>
    simp only [runBlockAct, R.bind_eq_ok] at h
    obtain ⟨r, _, h⟩ := h
    simp only [R.ok.injEq] at h
    subst h; rfl
  | «repeat» var ce st => exact hrep var ce _ _ st [] o h
  | «while» var cond st => exact hwh var cond _ _ st [] o h

end Duckling.Props.C08
