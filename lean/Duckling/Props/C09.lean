import Duckling.Model.Compile
import Duckling.Generated.Effects
import Duckling.Lemmas.ValNoCrash
import Duckling.Lemmas.NoCrash
import Duckling.Lemmas.EvalNoCrash
import Duckling.Lemmas.ParseNoBlank
/-
  C09 — every failure is a compile error, never a crash.

  The model has a `crash` outcome at every place where the Python can raise an exception outside the
  CompilationError family.  Proved so far:
  * `C09_operators_never_crash`   applying any of the 13 operators (and the comma) to any two values is a value, a compile
                                   error (MismatchError / DivideByZeroError) or out of the model — never a crash
                                   (after the `fix:` wrapping host TypeError/ArithmeticError in `Operator.solve`);
  * `C09_str_never_crashes`       `str()` of an in-model value never crashes;
  * `C09_raise_sites_inventory`   the explicit `raise` sites of non-compile exceptions re-extracted from the source are exactly the
                                   eleven reviewed ones (a new `raise TypeError(…)` changes the inventory and breaks this theorem);
  * `C09_trace_defined`           every located compile error of the model carries a trace (`stack_traceback` is total on it);
  * `C09_scanner_never_crashes`   the scanner never raises a host exception and every number token it finishes has a text
                                   `[-]digits[.digits]` with at least one digit — exactly what `int()`/`float()` accept
                                   (invariant of the scanner state through every `addCharToToken`/`__resolve_token_return` step);
  * `C09_evaluator_never_crashes` `Tokenizer.tokenize` on ANY text and ANY variable environment is a value, a compile error or
                                   out of the model — never a crash (scanner + tree builder + operators, by induction on depth);
  * `C09_interpreter_crash_only_blank_line`  for EVERY program tree, depth, context and state, the only non-compile exception
                                   the interpreter can exhibit is the IndexError of a blank command line — which the parser never
                                   produces from text (`C03_blank_ignored`); a walk over every function of the interpreter.
  * `C09_parser_output_nonblank`  every command line of the parser's output, at every depth, is non-blank (any text, unit, verbatim region);
  * `C09_exec_never_crashes`      for code whose every line is non-blank — the program, the bodies of the functions in the environment —
                                   and ANY file system, depth, context and state, the interpreter never crashes (hereditary walk:
                                   imported files are parser output, function bodies are blocks of such code);
  * `C09_compile_never_crashes`   **`Compiler.compile` of ANY text (or list of lines), ANY options, ANY file system: the result is
                                   output, a compile error, or out of the model — never a crash.**
  Outside the theorems: exceptions with no modelled site (host MemoryError/RecursionError — the known findings D13/D12/D19)
  and inputs outside the model's domain are reached by the grammar-aware fuzzing only — `partial`.
-/
namespace Duckling.Props.C09
open Duckling

theorem C09_str_never_crashes (v : Val) : Outcome.isCrash v.pyStr = false := pyStr_isCrash v

theorem C09_operators_never_crash (op : String) (l r : Val) : Outcome.isCrash (Val.binop op l r) = false :=
  binop_no_crash op l r

theorem C09_raise_sites_inventory :
    Generated.Effects.raisesNonCompile = [
      "ducklingscript.compiler.commands.bases.block_command:BlockCommand.token_arg#TypeError",
      "ducklingscript.compiler.commands.bases.simple_command:Arguments.append#TypeError",
      "ducklingscript.compiler.commands.bases.simple_command:Line.__len__#TypeError",
      "ducklingscript.compiler.commands.start:Start.convert_to_path#TypeError",
      "ducklingscript.compiler.compiler:Compiler.compile_file#FileNotFoundError",
      "ducklingscript.compiler.errors:GeneralError.__init__#AttributeError",
      "ducklingscript.compiler.stack:Stack.__init__#TypeError",
      "ducklingscript.compiler.stack:Stack.__prepare_for_command#ValueError",
      "ducklingscript.compiler.stack:Stack.return_stack#Exception",
      "ducklingscript.compiler.tokenization.tokenizer:SolveData.append_and_switch#TypeError",
      "ducklingscript.compiler.tokenization.tokens.conditional_operator:ConditionalOperator.solve_operand#NotImplementedError"] := by
  decide

theorem C09_trace_defined (ctx : Ctx) (pos : Pos) (st : St) (k : EK) :
    ∃ t ps, (raise ctx pos st k : Res) = .err { k := k, trace := some t, prints := some ps } ∧ t ≠ [] :=
  ⟨_, _, rfl, by simp [Ctx.trace]⟩

/-- the scanner: no host exception, and number tokens are always convertible -/
theorem C09_scanner_never_crashes (vars : List Str) (inp : Str) :
    (∀ x, lex vars inp ≠ .crash x) ∧
    ∀ toks, lex vars inp = .ok toks → ∀ t ∈ toks, t.cls = .num → GoodNumText t.text :=
  lex_good vars inp

/-- the expression evaluator: any text, any environment -/
theorem C09_evaluator_never_crashes (vars : VarEnv) (s : Str) (x : String) : tokenize vars s ≠ .crash x :=
  evalSafe vars s x

/-- the whole interpreter: any program tree, any depth, any context, any state -/
theorem C09_interpreter_crash_only_blank_line (d : Nat) (nodes : List Node) (ctx : Ctx) (st : St) (x : String)
    (h : exec d nodes ctx st = .crash x) : x = "IndexError" :=
  (exec_crash_only_index evalSafe d nodes ctx st).out x h

theorem C09_parser_output_nonblank (lines : List Str) (nodes : List Node) (h : parseLines lines = .ok nodes) :
    allLinesL nonBlank nodes = true := parseLines_noBlank lines nodes h

/-- no blank line anywhere in the code that can run ⇒ no crash at all -/
theorem C09_exec_never_crashes (d : Nat) (nodes : List Node) (ctx : Ctx) (st : St) (x : String)
    (hnodes : allLinesL nonBlank nodes = true) (hst : ∀ c ∈ st.codes, allLinesL nonBlank c = true) :
    exec d nodes ctx st ≠ .crash x := by
  intro h
  have hst' : StOk nbq st := fun c hc => by rw [show allCmdsL nbq c = allLinesL nonBlank c from allCmdsL_text nonBlank c]; exact hst c hc
  have hnodes' : allCmdsL nbq nodes = true := by rw [show allCmdsL nbq nodes = allLinesL nonBlank nodes from allCmdsL_text nonBlank nodes]; exact hnodes
  have h1 := (exec_hereditary hspec_nonBlank d nodes ctx st hnodes' hst' (fsOk_nonBlank ctx.fs) trivial).ni x h
  exact h1 (C09_interpreter_crash_only_blank_line d nodes ctx st x h)

theorem initEnv_ok : ∀ c ∈ ({ env := initEnv } : St).codes, allLinesL nonBlank c = true := by
  intro c hc
  unfold initEnv at hc
  split at hc <;> simp [St.codes] at hc

/-- **compiling any text never crashes** (any options, any file system, with or without an entry file) -/
theorem C09_compile_never_crashes (opts : Opts) (fs : FS) (file : Option Path) (src : Source)
    (htext : (∃ t, src = .text t) ∨ (∃ ls, src = .lines ls)) (x : String) : compile opts fs file src ≠ .crash x := by
  have hprep : ∀ nodes, prepare src = .ok nodes → allLinesL nonBlank nodes = true := by
    intro nodes hn
    rcases htext with ⟨t, rfl⟩ | ⟨ls, rfl⟩
    · exact parseLines_noBlank _ nodes hn
    · exact parseLines_noBlank _ nodes hn
  unfold compile
  split
  · simp
  · simp
  · rename_i nodes hn
    simp only []
    split
    · simp
    · simp
    · rename_i e he
      exact absurd he (C09_exec_never_crashes _ _ _ _ e (hprep nodes hn) initEnv_ok)
    · simp

/-- non-vacuity: a well-shaped number text exists and is accepted -/
example : GoodNumText "-12.5".toList :=
  ⟨true, true, "12".toList, "5".toList, ⟨by simp [Digits, isDigitC], by simp [Digits, isDigitC], by decide, by simp⟩, by simp⟩

end Duckling.Props.C09
