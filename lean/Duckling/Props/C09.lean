import Duckling.Model.Compile
import Duckling.Generated.Effects
/-
  C09 — every failure is a compile error, never a crash.

  The model has a `crash` outcome at every place where the Python can raise an exception outside the
  CompilationError family.  Proved so far:
  * `C09_operators_never_crash`   applying any of the 13 operators (and the comma) to any two values is a value, a compile
                                   error (MismatchError / DivideByZeroError) or out of the model — never a crash
                                   (after the `fix:` wrapping host TypeError/ArithmeticError in `Operator.solve`);
  * `C09_str_never_crashes`       `str()` of an in-model value never crashes;
  * `C09_raise_sites_inventory`   the explicit `raise` sites of non-compile exceptions re-extracted from the source are exactly the
                                   eleven reviewed ones (a new `raise TypeError(…)` changes the inventory and breaks this theorem);
  * `C09_trace_defined`           every located compile error of the model carries a trace (`stack_traceback` is total on it);
  * `C09_blank_line_only_via_tree` the parser never hands a blank line to the interpreter's `split(maxsplit=1)[0]` (text input): see C03_blank_ignored.
  Not yet proved: that `exec` as a whole never yields `crash` on parser output (the per-class argument
  guarantees are in `simplePre_spec`); exceptions with no modelled site and inputs outside the model's domain
  are reached by the grammar-aware fuzzing only — `partial`.
-/
namespace Duckling.Props.C09
open Duckling

def Outcome.isCrash {α : Type} : Outcome α → Bool
  | .crash _ => true
  | _ => false

theorem mkFlt_no_crash (m : Int) (k : Nat) : Outcome.isCrash (Val.mkFlt m k) = false := by
  unfold Val.mkFlt; simp only; split <;> rfl

theorem mkNum_no_crash (f : Bool) (m : Int) (k : Nat) : Outcome.isCrash (Val.mkNum f m k) = false := by
  unfold Val.mkNum
  split
  · exact mkFlt_no_crash m k
  · split <;> rfl

theorem C09_str_never_crashes (v : Val) : Outcome.isCrash v.pyStr = false := by
  cases v with
  | int i => simp only [Val.pyStr]; split <;> rfl
  | flt m k => simp only [Val.pyStr, Val.reprFlt]; split <;> rfl
  | str s => rfl
  | bool b => rfl
  | list l => rfl

theorem bind_no_crash {α β : Type} (x : Outcome α) (f : α → Outcome β)
    (hx : Outcome.isCrash x = false) (hf : ∀ a, Outcome.isCrash (f a) = false) : Outcome.isCrash (x >>= f) = false := by
  cases x with
  | ok a => exact hf a
  | cerr k => rfl
  | crash e => simp [Outcome.isCrash] at hx
  | oom w => rfl

theorem cmpOp_no_crash (op : String) (l r : Val) : Outcome.isCrash (Val.cmpOp op l r) = false := by
  unfold Val.cmpOp; simp only []
  split
  · rfl
  · rfl
  · split <;> rfl

theorem addOp_no_crash (l r : Val) : Outcome.isCrash (Val.addOp l r) = false := by
  unfold Val.addOp
  split
  · exact bind_no_crash _ _ (C09_str_never_crashes _) (fun _ => rfl)
  · exact bind_no_crash _ _ (C09_str_never_crashes _) (fun _ => rfl)
  · rfl
  · split
    · exact mkNum_no_crash _ _ _
    · rfl

theorem numOp_no_crash (op : String) (a : Int) (ka : Nat) (fa : Bool) (b : Int) (kb : Nat) (fb : Bool) :
    Outcome.isCrash (Val.numOp op a ka fa b kb fb) = false := by
  unfold Val.numOp; simp only []
  split
  · exact mkNum_no_crash _ _ _
  · exact mkNum_no_crash _ _ _
  · split
    · rfl
    · split
      · exact mkFlt_no_crash _ _
      · rfl
  · split
    · rfl
    · exact mkNum_no_crash _ _ _
  · split
    · rfl
    · exact mkNum_no_crash _ _ _
  · split
    · rfl
    · split
      · split
        · rfl
        · exact mkNum_no_crash _ _ _
      · split
        · rfl
        · split
          · rfl
          · split
            · exact mkFlt_no_crash _ _
            · rfl
  · rfl

theorem arithOp_no_crash (op : String) (l r : Val) : Outcome.isCrash (Val.arithOp op l r) = false := by
  unfold Val.arithOp
  split
  · split
    · rfl
    · split
      · split
        · rfl
        · split <;> rfl
      · split <;> rfl
      · split
        · rfl
        · exact numOp_no_crash _ _ _ _ _ _ _
  · split
    · rfl
    · split
      · split
        · rfl
        · split <;> rfl
      · split <;> rfl
      · split
        · rfl
        · exact numOp_no_crash _ _ _ _ _ _ _
  · rfl

theorem C09_operators_never_crash (op : String) (l r : Val) : Outcome.isCrash (Val.binop op l r) = false := by
  unfold Val.binop
  split
  · split <;> rfl
  · split <;> rfl
  · split <;> rfl
  · exact cmpOp_no_crash _ _ _
  · exact cmpOp_no_crash _ _ _
  · exact cmpOp_no_crash _ _ _
  · exact cmpOp_no_crash _ _ _
  · exact addOp_no_crash _ _
  · exact arithOp_no_crash _ _ _

theorem C09_raise_sites_inventory :
    Generated.Effects.raisesNonCompile = [
      "ducklingscript.compiler.commands.bases.block_command:BlockCommand.token_arg#TypeError",
      "ducklingscript.compiler.commands.bases.simple_command:Arguments.append#TypeError",
      "ducklingscript.compiler.commands.bases.simple_command:Line.__len__#TypeError",
      "ducklingscript.compiler.commands.start:Start.convert_to_path#TypeError",
      "ducklingscript.compiler.compiler:Compiler.compile_file#FileNotFoundError",
      "ducklingscript.compiler.errors:GeneralError.__init__#AttributeError",
      "ducklingscript.compiler.stack:Stack.__init__#TypeError",
      "ducklingscript.compiler.stack:Stack.__prepare_for_command#ValueError",
      "ducklingscript.compiler.stack:Stack.return_stack#Exception",
      "ducklingscript.compiler.tokenization.tokenizer:SolveData.append_and_switch#TypeError",
      "ducklingscript.compiler.tokenization.tokens.conditional_operator:ConditionalOperator.solve_operand#NotImplementedError"] := by
  decide

theorem C09_trace_defined (ctx : Ctx) (pos : Pos) (st : St) (k : EK) :
    ∃ t ps, (raise ctx pos st k : Res) = .err { k := k, trace := some t, prints := some ps } ∧ t ≠ [] :=
  ⟨_, _, rfl, by simp [Ctx.trace]⟩

end Duckling.Props.C09
