import Duckling.Model.Cli
import Duckling.Lemmas.Trace
/-
  C10 — errors point at the right file and line.

  * `C10_error_path`          (invariant over the whole interpreter, any depth, any program) every located error produced
                               while a block runs has the trace: the frames of the stacks below this one, then a frame of this
                               stack — its file, and the line of one of the block's own commands — then the frames of the stacks
                               created from it;
  * `C10_toplevel_entry`      for a compilation the outermost entry is a top-level line of the entry file;
  * `C10_frames_outermost_first`  a child stack is created with the parent's frames plus the parent's frame at the creating
                               command (block header, RUN line, START line — with the grouped argument's line as line_2):
                               outer entries list, outermost first, exactly the commands that led there;
  * `C10_innermost_is_raiser`  the last entry of an error raised by a command is that command's line, and `line_2` is what the
                               argument loop set;
  * `C10_group_argument_line`  an argument of a group that fails to evaluate is reported with the command's line and, as line_2, the
                               argument's own line; an inline argument has the command's line as line_2;
  * `C10_function_body_file`   frames of a function body carry the file that defined the function (via `funcFile`);
  * `C10_last_n`               the command line's `stack_traceback(5)` is exactly the five innermost entries (all, if fewer);
  * `C10_tab_error_line`       tab errors name the offending line (with C03_reject_first / C03_reject_nonmultiple).
-/
namespace Duckling.Props.C10
open Duckling

theorem C10_error_path (d : Nat) (nodes : List Node) (ctx : Ctx) (st : St) (e : ErrInfo) (t : List Frame)
    (h : exec d nodes ctx st = .err e) (ht : e.trace = some t) :
    ∃ fr rest, t = ctx.frames ++ fr :: rest ∧ fr.file = ctx.file ∧ fr.line ∈ lineNums nodes :=
  exec_traced d nodes ctx st e h t ht

theorem C10_toplevel_entry (o : Opts) (fs : FS) (file : Option Path) (src : Source) (nodes : List Node) (e : ErrInfo) (t : List Frame)
    (hp : prepare src = .ok nodes) (h : compile o fs file src = .err e) (ht : e.trace = some t) :
    ∃ fr rest, t = fr :: rest ∧ fr.file = file ∧ fr.line ∈ lineNums nodes := by
  unfold compile at h
  simp only [hp] at h
  split at h
  · cases h
  · rename_i e' he
    cases h
    obtain ⟨fr, rest, h1, h2, h3⟩ := exec_traced _ _ _ _ _ he t ht
    exact ⟨fr, rest, by simpa using h1, h2, h3⟩
  · cases h
  · cases h

theorem C10_frames_outermost_first (ctx : Ctx) (pos : Pos) (f : Option Path) :
    (ctx.child pos f).frames = ctx.frames ++ [⟨ctx.file, pos.line, pos.line2⟩] ∧ (ctx.child pos f).file = f := ⟨rfl, rfl⟩

theorem C10_innermost_is_raiser (ctx : Ctx) (pos : Pos) (st : St) (k : EK) :
    ∃ t, (raise ctx pos st k : Res) = .err { k := k, trace := some t, prints := some st.prints } ∧
      t.getLast? = some ⟨ctx.file, pos.line, pos.line2⟩ ∧ t.dropLast = ctx.frames := by
  refine ⟨ctx.frames ++ [⟨ctx.file, pos.line, pos.line2⟩], rfl, by simp, by simp⟩

theorem C10_group_argument_line (ctx : Ctx) (line : Nat) (st : St) (a : Arg) (rest : List Arg) (k : EK)
    (hbad : tokenize st.env.allVars a.str = .cerr k) :
    evaluateArgs ctx line st true (a :: rest) =
      .err { k := k, trace := some (ctx.frames ++ [⟨ctx.file, line, some a.orig⟩]), prints := some st.prints } := by
  simp [evaluateArgs, evalIn, liftO, hbad, raise, Ctx.trace]

theorem C10_inline_argument_line (a : Str) (line : Nat) (ha : a.isEmpty = false) :
    listifyArgs (some a) none line = some [⟨.str a, line, line⟩] := by
  simp [listifyArgs, ha]

theorem C10_function_body_file (ctx : Ctx) (pos : Pos) (fn : Func) (f : Path) (hf : fn.file = some f) :
    (ctx.child pos (funcFile ctx fn)).file = some f := by
  simp [Ctx.child, funcFile, hf]

/-- `(t.reverse.take n).reverse` is the last `n` entries -/
theorem C10_last_n (t : List Frame) (n : Nat) : (t.reverse.take n).reverse = t.drop (t.length - n) := by
  rw [List.reverse_take, List.reverse_reverse]
  simp

theorem C10_tab_error_line (src : Source) (n : Nat) (o : Opts) (fs : FS) (file : Option Path)
    (h : prepare src = .error (.tab n)) :
    compile o fs file src = .err { k := .invalidTab, lineNo := some n } := by
  simp [compile, h]

end Duckling.Props.C10
