import Duckling.Model.Compile
import Duckling.Lemmas.Simple
/-
  C11 — grouped, triple-quoted, `$` and counted forms equal their expansion.

  * `C11_argument_order`       the arguments of a command are its inline argument (if any) followed by the lines of its
                                group, in order, each carrying its own line number; a nested block inside a group is an error;
  * `C11_runs_in_order`        `__multi_comp` is the sequential composition of `run_compile` on those arguments: the first
                                argument from the given state, the rest from the state it leaves, outputs concatenated in order —
                                exactly what separate one-argument lines do after their own (identical) checks;
  * `C11_group_plain`          for a plain command (not evaluated, string arguments, no hooks — STRING, STRINGLN, REM, ALTSTRING,
                                unknown commands, …) an argument group of any length emits one `NAME arg` line per argument,
                                the same lines that the one-argument-per-line spelling emits (`plain_inline`);
  * `C11_enter_count`          `$ENTER n` emits `n` ENTER lines (none for n ≤ 0); `C11_whitespace_count` WHITESPACE n emits n empty
                                lines; `C11_whitespace_range` its hook accepts exactly 0 ≤ n < 100;
  * (`C16_plain_dollar`)       `$CMD expr` emits `CMD v` with v the printed value of expr (for the plain class; `C16_plain_dollar`).
  Known finding D18 (grouped DEFAULT_DELAY evaluates all arguments before applying any) is the reason the
  group/expansion equivalence is stated for commands whose execution does not change what later arguments
  evaluate to.  The verbatim (triple-quote) form is a property of the indentation parser: see C03.
-/
namespace Duckling.Props.C11
open Duckling

theorem C11_argument_order (a : Str) (ls : List PreLine) (line : Nat) (ha : a.isEmpty = false) :
    listifyArgs (some a) (some (ls.map Node.line)) line =
      some (⟨.str a, line, line⟩ :: ls.map (fun l => ⟨.str l.content, l.num, l.num⟩)) ∧
    listifyArgs none (some (ls.map Node.line)) line = some (ls.map (fun l => ⟨.str l.content, l.num, l.num⟩)) := by
  have hgo : listifyArgs.go (ls.map Node.line) = some (ls.map (fun l => ⟨.str l.content, l.num, l.num⟩)) := by
    induction ls with
    | nil => rfl
    | cons l rest ih => simp [listifyArgs.go, ih]
  simp [listifyArgs, ha, hgo]

theorem C11_nested_block_rejected (arg : Option Str) (pre : List PreLine) (b : List Node) (post : List Node) (line : Nat) :
    listifyArgs arg (some (pre.map Node.line ++ Node.block b :: post)) line = none := by
  have hgo : listifyArgs.go (pre.map Node.line ++ Node.block b :: post) = none := by
    induction pre with
    | nil => rfl
    | cons l rest ih => simp [listifyArgs.go, ih]
  simp [listifyArgs, hgo]

theorem C11_runs_in_order (child : Option ChildFn) (ctx : Ctx) (c : ClsDesc) (name : Str) (line : Nat)
    (a : Option Arg) (rest : List (Option Arg)) (st : St) (out : List Str) (sig : Sig) :
    multiComp child ctx c name line (a :: rest) st out sig =
      (runCompile child ctx c name line a st >>= fun r =>
        multiComp child ctx c name line rest r.st (out ++ r.out) (r.sig.getD sig)) := rfl

/-- a group of any length under a plain command without hooks: one line per argument, in order -/
theorem C11_group_plain (child : Option ChildFn) (ctx : Ctx) (c : ClsDesc) (hp : PlainCls ctx c)
    (hnv : hasHook c "verify_arg" = false) (hnf : hasHook c "format_arg" = false)
    (word : Str) (line : Nat) (ls : List PreLine) (st : St)
    (hd : startsWith ['$'] (upper word) = false) (hallow : c.argReq ≠ .notAllowed) (hne : ls ≠ []) :
    compileSimple child ctx c word line none (some (ls.map Node.line)) st =
      .ok { st := st, out := ls.map (fun l => upper word ++ [' '] ++ (if c.strip then strip l.content else l.content)), sig := .normal } := by
  obtain ⟨h1, h2, h3, h4, h5, h6, h7⟩ := hp
  have hr : (c.argReq == ArgReq.notAllowed) = false := by simpa using hallow
  have hlist := (C11_argument_order [' '] ls line rfl).2
  -- the arguments after the optional strip
  let args : List Arg := ls.map (fun l => ⟨.str (if c.strip then strip l.content else l.content), l.num, l.num⟩)
  have hprep : prepareArgs ctx c word line none (some (ls.map Node.line)) st = .ok args := by
    simp only [prepareArgs, hlist, h4, hd, Bool.or_false, Bool.false_eq_true, if_false]
    cases hs : c.strip <;> simp [args, hs, Arg.str, List.map_map, Function.comp_def]
  have hargs_ne : args.isEmpty = false := by cases ls <;> simp_all [args]
  have hvt : verifyTypes ctx line st c.argType args = .ok () := by
    rw [h5]
    have : ∀ xs : List PreLine, verifyTypes ctx line st .str (xs.map (fun l => ⟨.str (if c.strip then strip l.content else l.content), l.num, l.num⟩)) = .ok () := by
      intro xs; induction xs with
      | nil => rfl
      | cons x xs ih => simp [verifyTypes, typeOk, isListVal, ih]
    exact this ls
  have hve : ∀ st', verifyEach ctx line st' c args = .ok () := by
    intro st'
    have : ∀ xs : List Arg, verifyEach ctx line st' c xs = .ok () := by
      intro xs; induction xs with
      | nil => rfl
      | cons x xs ih => simp [verifyEach, verifyArgHook, hnv, ih]
    exact this args
  have hchk : checkArgs ctx c line args st = .ok st := by
    simp [checkArgs, hargs_ne, hr, hvt, verifyArgsHook, h7, hve]
  have hname : nameOf word = word := by simp [nameOf, hd]
  have hfmt : ∀ x : Arg, formatArg c x = x := by intro x; simp [formatArg, hnf]
  have hmulti : ∀ (xs : List PreLine) (out : List Str),
      multiComp child ctx c word line
        (xs.map (fun l => some (⟨.str (if c.strip then strip l.content else l.content), l.num, l.num⟩ : Arg))) st out .normal =
      .ok { st := st, out := out ++ xs.map (fun l => upper word ++ [' '] ++ (if c.strip then strip l.content else l.content)), sig := .normal } := by
    intro xs
    induction xs with
    | nil => intro out; simp [multiComp]
    | cons x xs ih =>
      intro out
      simp only [List.map_cons, multiComp, runCompile, h6, Bool.false_and, Bool.false_eq_true, if_false, runCompileLocal,
        Bool.not_false, if_true, defaultEmit, R.bind_ok, Option.getD_some, ih]
      simp
  simp only [compileSimple, simplePre, h2, h3, Bool.false_eq_true, if_false, hprep, R.bind_ok, hchk, itemsOf, hargs_ne, Bool.false_and,
    hname, hfmt]
  have := hmulti ls []
  simpa [args, List.map_map, Function.comp_def] using this

theorem C11_enter_count (ctx : Ctx) (c : ClsDesc) (name : Str) (line : Nat) (a : Arg) (n : Int) (st : St)
    (hc : c.cname = "Enter") (hh : hasHook c "run_compile" = true) (hn : a.content = .int n) (hsmall : ¬ n > 100000) :
    runCompileLocal ctx c name line (some a) st = .ok { st := st, out := List.replicate n.toNat "ENTER".toList, sig := none } := by
  simp [runCompileLocal, hc, hh, hn, hsmall]

theorem C11_whitespace_count (ctx : Ctx) (c : ClsDesc) (name : Str) (line : Nat) (a : Arg) (n : Int) (st : St)
    (hc : c.cname = "Whitespace") (hh : hasHook c "run_compile" = true) (hn : a.content = .int n) :
    runCompileLocal ctx c name line (some a) st = .ok { st := st, out := List.replicate n.toNat [], sig := none } := by
  simp [runCompileLocal, hc, hh, hn]

theorem C11_whitespace_range (c : ClsDesc) (a : Arg) (n : Int) (hc : c.cname = "Whitespace") (hh : hasHook c "verify_arg" = true)
    (hn : a.content = .int n) : verifyArgHook c a = true ↔ (0 ≤ n ∧ n < 100) := by
  simp [verifyArgHook, hh, hc, hn]
  omega

end Duckling.Props.C11
