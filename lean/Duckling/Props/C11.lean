import Duckling.Model.Compile
import Duckling.Lemmas.Simple
import Duckling.Lemmas.TabSound
import Duckling.Lemmas.TabRound
/-
  C11 — grouped, triple-quoted, `$` and counted forms equal their expansion.

  * `C11_argument_order`       the arguments of a command are its inline argument (if any) followed by the lines of its
                                group, in order, each carrying its own line number; a nested block inside a group is an error;
  * `C11_runs_in_order`        `__multi_comp` is the sequential composition of `run_compile` on those arguments: the first
                                argument from the given state, the rest from the state it leaves, outputs concatenated in order —
                                exactly what separate one-argument lines do after their own (identical) checks;
  * `C11_group_plain`          for a plain command (not evaluated, string arguments, no hooks — STRING, STRINGLN, REM, ALTSTRING,
                                unknown commands, …) an argument group of any length emits one `NAME arg` line per argument,
                                the same lines that the one-argument-per-line spelling emits (`plain_inline`);
  * `C11_enter_count`          `$ENTER n` emits `n` ENTER lines (none for n ≤ 0); `C11_whitespace_count` WHITESPACE n emits n empty
                                lines; `C11_whitespace_range` its hook accepts exactly 0 ≤ n < 100;
  * (`C16_plain_dollar`)       `$CMD expr` emits `CMD v` with v the printed value of expr (for the plain class; `C16_plain_dollar`).
  Known finding D18 (grouped DEFAULT_DELAY evaluates all arguments before applying any) is the reason the
  group/expansion equivalence is stated for commands whose execution does not change what later arguments
  evaluate to.
  * `C11_verbatim_group`       **the verbatim (triple-quote) form**: a group that begins with a line of three quotes and ends with one is
                                handed to its command as exactly the lines in between — any number of them, each with the text it has
                                after one indent unit per enclosing level was removed (so the indentation RELATIVE to the quotes is kept:
                                nothing more is stripped, no line is re-interpreted as a nested block however it is indented), none added,
                                none dropped (the lines are non-blank and do not themselves begin with three quotes).
-/
namespace Duckling.Props.C11
open Duckling

theorem C11_argument_order (a : Str) (ls : List PreLine) (line : Nat) (ha : a.isEmpty = false) :
    listifyArgs (some a) (some (ls.map Node.line)) line =
      some (⟨.str a, line, line⟩ :: ls.map (fun l => ⟨.str l.content, l.num, l.num⟩)) ∧
    listifyArgs none (some (ls.map Node.line)) line = some (ls.map (fun l => ⟨.str l.content, l.num, l.num⟩)) := by
  have hgo : listifyArgs.go (ls.map Node.line) = some (ls.map (fun l => ⟨.str l.content, l.num, l.num⟩)) := by
    induction ls with
    | nil => rfl
    | cons l rest ih => simp [listifyArgs.go, ih]
  simp [listifyArgs, ha, hgo]

theorem C11_nested_block_rejected (arg : Option Str) (pre : List PreLine) (b : List Node) (post : List Node) (line : Nat) :
    listifyArgs arg (some (pre.map Node.line ++ Node.block b :: post)) line = none := by
  have hgo : listifyArgs.go (pre.map Node.line ++ Node.block b :: post) = none := by
    induction pre with
    | nil => rfl
    | cons l rest ih => simp [listifyArgs.go, ih]
  simp [listifyArgs, hgo]

theorem C11_runs_in_order (child : Option ChildFn) (ctx : Ctx) (c : ClsDesc) (name : Str) (line : Nat)
    (a : Option Arg) (rest : List (Option Arg)) (st : St) (out : List Str) (sig : Sig) :
    multiComp child ctx c name line (a :: rest) st out sig =
      (runCompile child ctx c name line a st >>= fun r =>
        multiComp child ctx c name line rest r.st (out ++ r.out) (r.sig.getD sig)) := rfl

/-- a group of any length under a plain command without hooks: one line per argument, in order -/
theorem C11_group_plain (child : Option ChildFn) (ctx : Ctx) (c : ClsDesc) (hp : PlainCls ctx c)
    (hnv : hasHook c "verify_arg" = false) (hnf : hasHook c "format_arg" = false)
    (word : Str) (line : Nat) (ls : List PreLine) (st : St)
    (hd : startsWith ['$'] (upper word) = false) (hallow : c.argReq ≠ .notAllowed) (hne : ls ≠ []) :
    compileSimple child ctx c word line none (some (ls.map Node.line)) st =
      .ok { st := st, out := ls.map (fun l => upper word ++ [' '] ++ (if c.strip then strip l.content else l.content)), sig := .normal } := by
  obtain ⟨h1, h2, h3, h4, h5, h6, h7⟩ := hp
  have hr : (c.argReq == ArgReq.notAllowed) = false := by simpa using hallow
  have hlist := (C11_argument_order [' '] ls line rfl).2
  -- the arguments after the optional strip
  let args : List Arg := ls.map (fun l => ⟨.str (if c.strip then strip l.content else l.content), l.num, l.num⟩)
  have hprep : prepareArgs ctx c word line none (some (ls.map Node.line)) st = .ok args := by
    simp only [prepareArgs, hlist, h4, hd, Bool.or_false, Bool.false_eq_true, if_false]
    cases hs : c.strip <;> simp [args, hs, Arg.str, List.map_map, Function.comp_def]
  have hargs_ne : args.isEmpty = false := by cases ls <;> simp_all [args]
  have hvt : verifyTypes ctx line st c.argType args = .ok () := by
    rw [h5]
    have : ∀ xs : List PreLine, verifyTypes ctx line st .str (xs.map (fun l => ⟨.str (if c.strip then strip l.content else l.content), l.num, l.num⟩)) = .ok () := by
      intro xs; induction xs with
      | nil => rfl
      | cons x xs ih => simp [verifyTypes, typeOk, isListVal, ih]
    exact this ls
  have hve : ∀ st', verifyEach ctx line st' c args = .ok () := by
    intro st'
    have : ∀ xs : List Arg, verifyEach ctx line st' c xs = .ok () := by
      intro xs; induction xs with
      | nil => rfl
      | cons x xs ih => simp [verifyEach, verifyArgHook, hnv, ih]
    exact this args
  have hchk : checkArgs ctx c line args st = .ok st := by
    simp [checkArgs, hargs_ne, hr, hvt, verifyArgsHook, h7, hve]
  have hname : nameOf word = word := by simp [nameOf, hd]
  have hfmt : ∀ x : Arg, formatArg c x = x := by intro x; simp [formatArg, hnf]
  have hmulti : ∀ (xs : List PreLine) (out : List Str),
      multiComp child ctx c word line
        (xs.map (fun l => some (⟨.str (if c.strip then strip l.content else l.content), l.num, l.num⟩ : Arg))) st out .normal =
      .ok { st := st, out := out ++ xs.map (fun l => upper word ++ [' '] ++ (if c.strip then strip l.content else l.content)), sig := .normal } := by
    intro xs
    induction xs with
    | nil => intro out; simp [multiComp]
    | cons x xs ih =>
      intro out
      simp only [List.map_cons, multiComp, runCompile, h6, Bool.false_and, Bool.false_eq_true, if_false, runCompileLocal,
        Bool.not_false, if_true, defaultEmit, R.bind_ok, Option.getD_some, ih]
      simp
  simp only [compileSimple, simplePre, h2, h3, Bool.false_eq_true, if_false, hprep, R.bind_ok, hchk, itemsOf, hargs_ne, Bool.false_and,
    hname, hfmt]
  have := hmulti ls []
  simpa [args, List.map_map, Function.comp_def] using this

theorem C11_enter_count (ctx : Ctx) (c : ClsDesc) (name : Str) (line : Nat) (a : Arg) (n : Int) (st : St)
    (hc : c.cname = "Enter") (hh : hasHook c "run_compile" = true) (hn : a.content = .int n) (hsmall : ¬ n > 100000) :
    runCompileLocal ctx c name line (some a) st = .ok { st := st, out := List.replicate n.toNat "ENTER".toList, sig := none } := by
  simp [runCompileLocal, hc, hh, hn, hsmall]

theorem C11_whitespace_count (ctx : Ctx) (c : ClsDesc) (name : Str) (line : Nat) (a : Arg) (n : Int) (st : St)
    (hc : c.cname = "Whitespace") (hh : hasHook c "run_compile" = true) (hn : a.content = .int n) :
    runCompileLocal ctx c name line (some a) st = .ok { st := st, out := List.replicate n.toNat [], sig := none } := by
  simp [runCompileLocal, hc, hh, hn]

theorem C11_whitespace_range (c : ClsDesc) (a : Arg) (n : Int) (hc : c.cname = "Whitespace") (hh : hasHook c "verify_arg" = true)
    (hn : a.content = .int n) : verifyArgHook c a = true ↔ (0 ≤ n ∧ n < 100) := by
  simp [verifyArgHook, hh, hc, hn]
  omega

theorem tripleQuote_not_blank (s : Str) (h : startsWith tripleQuote s = true) : isBlank s = false := by
  unfold startsWith tripleQuote at h
  cases s with
  | nil => simp [List.isPrefixOf] at h
  | cons a r =>
    simp only [List.isPrefixOf, Bool.and_eq_true, beq_iff_eq] at h
    have ha : a = '"' := h.1.symm
    subst ha
    simp [isBlank, isSpace]

/-- inside a verbatim region every non-blank line that does not begin with three quotes is kept as it is -/
theorem goLines_verbatim (rec : ParseFn) (ls : List PreLine)
    (hls : ∀ l ∈ ls, isBlank l.content = false ∧ startsWith tripleQuote l.content = false) :
    ∀ (count : Nat) (st : PState), st.free ≠ 0 → st.seen = true →
      goLines rec count ls st = .ok { st with ret := (ls.map Node.line).reverse ++ st.ret } := by
  induction ls with
  | nil => intro count st _ _; simp [goLines]
  | cons l rest ih =>
    intro count st hfree hseen
    obtain ⟨hb, hq⟩ := hls l List.mem_cons_self
    have hstep : stepLine rec count l st = .ok { st with ret := .line l :: st.ret } := by
      have hf : (st.free != 0) = true := by simpa using hfree
      simp [stepLine, hb, hq, hf, hseen]
    simp only [goLines, hstep]
    have := ih (fun x hx => hls x (List.mem_cons_of_mem _ hx)) (count + 1) { st with ret := .line l :: st.ret } hfree hseen
    rw [this]
    simp

/-- **the verbatim form**: a group `""" … """` is exactly the lines between the quotes -/
theorem C11_verbatim_group (f : Nat) (tab : Option Str) (q q' : PreLine) (ls : List PreLine)
    (hq : startsWith tripleQuote q.content = true) (hq' : startsWith tripleQuote q'.content = true) (hnum : q.num ≠ 0)
    (hls : ∀ l ∈ ls, isBlank l.content = false ∧ startsWith tripleQuote l.content = false) :
    parseFuel (f + 1) (q :: (ls ++ [q'])) tab = .ok (ls.map Node.line) := by
  have hqb := tripleQuote_not_blank q.content hq
  have hqb' := tripleQuote_not_blank q'.content hq'
  -- the opening line
  have h0 : stepLine (parseFuel f) 0 q { tab := tab } = .ok { tab := tab, seen := true, free := q.num } := by
    simp [stepLine, hqb, hq]
  -- the lines in between
  have h1 := goLines_verbatim (parseFuel f) ls hls 1 { tab := tab, seen := true, free := q.num } (by simpa using hnum) rfl
  -- the closing line
  have h2 : ∀ (c : Nat) (ret : List Node), stepLine (parseFuel f) c q' { tab := tab, seen := true, free := q.num, ret := ret } =
      .ok { tab := tab, seen := true, free := 0, ret := ret } := by
    intro c ret
    have hf : (q.num != 0) = true := by simpa using hnum
    simp [stepLine, hqb', hq', hf, hnum]
  simp only [parseFuel, goLines, h0]
  rw [goLines_append, h1]
  simp only [goLines, h2, List.append_nil, finishParse]
  simp

end Duckling.Props.C11
