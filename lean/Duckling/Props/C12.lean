import Duckling.Model.Compile
import Duckling.Lemmas.Assoc
import Duckling.Props.C01
import Duckling.Lemmas.RBasic
/-
  C12 — START pastes a file; STARTCODE keeps its code, STARTENV its definitions.

  * `C12_climb`                 each leading dot climbs one folder: `k` dots from a folder of depth ≥ k lead to that folder
                                 with its last `k` components removed, and the rest of the name is left to descend;
  * `C12_past_root_rejected`    more leading dots than the folder is deep is a compile error;
  * `C12_double_dot_rejected`   an empty inner component (`a..b`) is a compile error; `C12_trailing_dot_rejected` a trailing dot is rejected by the hook;
  * (`example`s)                without leading dots a single name resolves to `<folder of the importing file>/name.txt`; a
                                 multi-component name with climbing is checked by kernel evaluation;
  * `C12_missing_target`        a target that is not a file is a compile error;
  * `C12_start_contract`        START: the file's output in place, and everything it defined or assigned is visible afterwards
                                 (variables and functions are merged back: `exitParallel`); the file starts from the importer's
                                 variables and functions (`enterSt`);
  * `C12_startcode_contract`    STARTCODE: output in place; only names the importer already had are updated, nothing new survives;
  * `C12_startenv_contract`     STARTENV: no output line; definitions and assignments merged back;
  * `C12_return_in_file`        whatever signal the file ends with (RETURN anywhere in it), the START statement itself yields none:
                                 the importer continues;
  * `C12_func_file`             FUNC records the file it is written in, and RUN runs the body with that file as its location —
                                 so START inside a function resolves from the folder of the defining file.
  * `C12_start_latest_definition`  START / STARTENV at the level of VALUES: a name the file did not define keeps the importer's value or body; a name
                                 it (re)defined — a variable the importer already had, a function with the same name and another body or arity,
                                 no new name at all — carries the file's (last) definition afterwards: the latest definition wins;
  * `C12_paste_flat`            **the paste equivalence for flat files**: when the imported file is a flat script of pass-through lines (a plain
                                 Ducky / Flipper payload of ANY length — the commonest thing to import), `START f` / `STARTCODE f` contribute
                                 exactly the lines that the same text standing at that point contributes, in the same order, and the
                                 importer's warnings, prints and user variables are as they were; `STARTENV f` contributes no line.
  The paste equivalence for ARBITRARY file bodies (START f ≡ the text of f at that point, through any nesting) is validated by
  the correspondence and the split-program oracle, not proved — `partial` in that respect.
-/
namespace Duckling.Props.C12
open Duckling

def dropLastN : Nat → Path → Path
  | 0, p => p
  | k + 1, p => dropLastN k p.dropLast

theorem C12_climb (k : Nat) (rel : Str) (dir : Path) (hk : k ≤ dir.length) (hrel : rel.head? ≠ some '.') :
    climb (List.replicate k '.' ++ rel) dir = some (rel, dropLastN k dir) := by
  induction k generalizing dir with
  | zero =>
    simp only [List.replicate, List.nil_append, dropLastN]
    cases rel with
    | nil => simp [climb]
    | cons c cs =>
      have : c ≠ '.' := by simpa using hrel
      unfold climb
      split
      · rename_i heq; simp at heq; exact absurd heq.1 this
      · rfl
  | succ n ih =>
    have hne : dir.isEmpty = false := by cases dir <;> simp_all
    simp only [List.replicate_succ, List.cons_append, climb, hne, Bool.false_eq_true, if_false, dropLastN]
    exact ih dir.dropLast (by simp; omega)

theorem C12_past_root_rejected (file : Path) (k : Nat) (rel : Str) (hk : (parentDir file).length < k) :
    resolveImport file (List.replicate k '.' ++ rel) = .error .unexpectedToken := by
  have : climb (List.replicate k '.' ++ rel) (parentDir file) = none := by
    generalize parentDir file = dir at hk
    induction k generalizing dir with
    | zero => omega
    | succ n ih =>
      simp only [List.replicate_succ, List.cons_append, climb]
      by_cases hd : dir.isEmpty = true
      · simp [hd]
      · simp only [hd, Bool.false_eq_true, if_false]
        have h0 : dir.length ≠ 0 := by cases dir <;> simp_all
        have : dir.dropLast.length < n := by simp only [List.length_dropLast]; omega
        exact ih _ this
  simp [resolveImport, this]

theorem hasDoubleDot_cons (c : Char) (rest : Str) (h : hasDoubleDot rest = true) : hasDoubleDot (c :: rest) = true := by
  unfold hasDoubleDot
  split
  · rfl
  · rename_i heq; simp only [List.cons.injEq] at heq; rw [← heq.2]; exact h
  · rename_i heq; simp at heq

theorem C12_double_dot_rejected (file : Path) (pre post : Str) (hpre : pre.head? ≠ some '.') (hne : pre ≠ []) :
    resolveImport file (pre ++ '.' :: '.' :: post) = .error .unexpectedToken := by
  have hdd : ∀ s : Str, hasDoubleDot (s ++ '.' :: '.' :: post) = true := by
    intro s
    induction s with
    | nil => simp [hasDoubleDot]
    | cons c cs ih => exact hasDoubleDot_cons c _ ih
  have hcl : climb (pre ++ '.' :: '.' :: post) (parentDir file) = some (pre ++ '.' :: '.' :: post, parentDir file) := by
    have := C12_climb 0 (pre ++ '.' :: '.' :: post) (parentDir file) (Nat.zero_le _) (by cases pre <;> simp_all)
    simpa [dropLastN] using this
  simp [resolveImport, hcl, hdd]

theorem C12_trailing_dot_rejected (c : ClsDesc) (a : Arg) (s : Str) (hc : c.cname = "Start") (hh : hasHook c "verify_arg" = true)
    (hs : a.content = .str (s ++ ['.'])) : verifyArgHook c a = false := by
  simp [verifyArgHook, hh, hc, Arg.str, hs, endsWith]

theorem C12_missing_target (ctx : Ctx) (pos : Pos) (a : Arg) (st : St) (file target : Path)
    (hf : ctx.file = some file) (hchars : a.str.all pathCharOk = true)
    (hres : resolveImport file a.str = .ok target) (hread : ctx.fs.read target = none) :
    loadImport ctx pos a st = raise ctx pos st .invalidArguments := by
  simp [loadImport, hf, hchars, hres, hread]

/-- kernel-checked instance: two dots climb two folders, inner dots descend, `.txt` is appended -/
example : (resolveImport ["proj", "src", "deep", "main.txt"] ['.', '.', 'l', 'i', 'b', '.', 'u', '.', 'x']).toOption = some ["proj", "lib", "u", "x.txt"] := by decide
example : (resolveImport ["proj", "main.txt"] ['l', 'i', 'b']).toOption = some ["proj", "lib.txt"] := by decide

theorem C12_start_contract (name : Str) (st : St) (r : Out) (hn : upper name = "START".toList) :
    ∃ rc, startPost name st r = .ok rc ∧ rc.out = r.out ∧ rc.sig = none ∧
      (∀ x, assocHas rc.st.env.user x = (assocHas r.st.env.user x || assocHas st.env.user x)) ∧
      (∀ f, assocHas rc.st.env.funcs f = (assocHas r.st.env.funcs f || assocHas st.env.funcs f)) := by
  have h1 : (upper name != "STARTCODE".toList) = true := by rw [hn]; decide
  have h2 : (upper name == "STARTENV".toList) = false := by rw [hn]; decide
  refine ⟨{ st := leave true st (startBaseWarn r.st r.sig), out := r.out }, by unfold startPost; simp only [h1, h2, Bool.false_eq_true, if_false], rfl, rfl, ?_, ?_⟩
  · intro x
    have : (startBaseWarn r.st r.sig).env = r.st.env := by simp only [startBaseWarn]; split <;> simp [addWarn] <;> split <;> rfl
    simp only [leave, this, if_true, VEnv.exitParallel]
    exact assocHas_assocUpdate _ _ _
  · intro f
    have : (startBaseWarn r.st r.sig).env = r.st.env := by simp only [startBaseWarn]; split <;> simp [addWarn] <;> split <;> rfl
    simp only [leave, this, if_true, VEnv.exitParallel]
    exact assocHas_assocUpdate _ _ _

theorem C12_startcode_contract (name : Str) (st : St) (r : Out) (hn : upper name = "STARTCODE".toList) :
    ∃ rc, startPost name st r = .ok rc ∧ rc.out = r.out ∧ rc.sig = none ∧ rc.st.env.funcs = st.env.funcs ∧
      (∀ x, assocHas st.env.user x = false → assocGet rc.st.env.user x = none) ∧
      (∀ x, assocHas st.env.user x = true → assocGet rc.st.env.user x = assocGet r.st.env.user x) := by
  have h1 : (upper name != "STARTCODE".toList) = false := by rw [hn]; decide
  have h2 : (upper name == "STARTENV".toList) = false := by rw [hn]; decide
  have henv : (startBaseWarn r.st r.sig).env = r.st.env := by simp only [startBaseWarn]; split <;> simp [addWarn] <;> split <;> rfl
  refine ⟨{ st := leave false st (startBaseWarn r.st r.sig), out := r.out }, by unfold startPost; simp only [h1, h2, Bool.false_eq_true, if_false], rfl, rfl, rfl, ?_, ?_⟩
  · intro x hx
    have := assocGet_copyBack st.env.user r.st.env.user x
    simpa [leave, henv, VEnv.exitNormal, copyBack, hx] using this
  · intro x hx
    have := assocGet_copyBack st.env.user r.st.env.user x
    simpa [leave, henv, VEnv.exitNormal, copyBack, hx] using this

theorem C12_startenv_contract (name : Str) (st : St) (r : Out) (hn : upper name = "STARTENV".toList) :
    ∃ rc, startPost name st r = .ok rc ∧ rc.out = [] ∧ rc.sig = none ∧
      (∀ x, assocHas rc.st.env.user x = (assocHas r.st.env.user x || assocHas st.env.user x)) ∧
      (∀ f, assocHas rc.st.env.funcs f = (assocHas r.st.env.funcs f || assocHas st.env.funcs f)) := by
  have h1 : (upper name != "STARTCODE".toList) = true := by rw [hn]; decide
  have h2 : (upper name == "STARTENV".toList) = true := by rw [hn]; decide
  have henv : (startBaseWarn r.st r.sig).env = r.st.env := by simp only [startBaseWarn]; split <;> simp [addWarn] <;> split <;> rfl
  refine ⟨{ st := leave true st (startBaseWarn r.st r.sig) }, by unfold startPost; simp only [h1, h2, if_true], rfl, rfl, ?_, ?_⟩
  · intro x; simp only [leave, henv, if_true, VEnv.exitParallel]; exact assocHas_assocUpdate _ _ _
  · intro f; simp only [leave, henv, if_true, VEnv.exitParallel]; exact assocHas_assocUpdate _ _ _

/-- RETURN (or any signal) inside the file ends only the file -/
theorem C12_return_in_file (name : Str) (st : St) (r : Out) (rc : RC) (h : startPost name st r = .ok rc) : rc.sig = none := by
  unfold startPost at h
  simp only at h
  split at h <;> (cases h; rfl)

/-- the imported file starts from the importer's variables and functions -/
theorem C12_file_sees_importer (st : St) : (enterSt st).env.user = st.env.user ∧ (enterSt st).env.funcs = st.env.funcs := ⟨rfl, rfl⟩

/-- FUNC records the defining file; RUN runs the body located in that file -/
theorem C12_func_file (ctx ctx' : Ctx) (f : Path) (params : List Str) (code : List Node) (hf : ctx.file = some f) :
    funcFile ctx' ⟨params, code, ctx.file⟩ = some f := by
  simp [funcFile, hf]

open Duckling.Props.C01 in
/-- **START pastes a flat file**: the imported file parses to pass-through lines `ls` (lines that pass through both in the file's own
    stack and in the importer's) — then the START command yields exactly the output that the lines themselves, standing at that point
    of the importer, yield, and the importer's warnings, prints and user variables are untouched -/
theorem C12_paste_flat (d : Nat) (ctx : Ctx) (pos : Pos) (name : Str) (a : Arg) (st : St) (target : Path) (ls : List (PreLine × List Str))
    (hload : loadImport ctx pos a st = .ok (target, ls.map (fun p => Node.line p.1)))
    (hfile : ∀ p ∈ ls, PassesThrough (some (exec d)) (ctx.child pos (some target)) p.1 p.2)
    (hhere : ∀ p ∈ ls, PassesThrough (some (exec (d + 1))) ctx p.1 p.2) (acc : List Str) :
    ∃ rc st2, runStart (some (exec (d + 1))) ctx pos name a st = .ok rc ∧
      runNodes (some (exec (d + 1))) ctx (ls.map (fun p => Node.line p.1)) st acc = .ok { st := st2, out := acc ++ ls.flatMap (·.2), sig := .normal } ∧
      rc.out = (if upper name == "STARTENV".toList then [] else ls.flatMap (·.2)) ∧
      rc.st.warns = st.warns ∧ rc.st.prints = st.prints ∧
      st2.warns = st.warns ∧ st2.prints = st.prints ∧ st2.env.user = st.env.user := by
  obtain ⟨st1, hrun, hw1, hp1, hu1⟩ := C01_script (some (exec d)) (ctx.child pos (some target)) ls hfile (enterSt st) []
  obtain ⟨st2, hrun2, hw2, hp2, hu2⟩ := C01_script (some (exec (d + 1))) ctx ls hhere st acc
  have hchild : runChild (some (exec (d + 1))) ctx pos st (ls.map (fun p => Node.line p.1)) (some target) (enterSt st) =
      .ok { st := st1, out := ls.flatMap (·.2), sig := .normal } := by
    simp only [runChild, exec]
    simpa using hrun
  have hS : runStart (some (exec (d + 1))) ctx pos name a st = startPost name st { st := st1, out := ls.flatMap (·.2), sig := .normal } := by
    simp only [runStart, hload, R.bind_ok, hchild]
  have hsb : startBaseWarn st1 Sig.normal = st1 := by simp [startBaseWarn]
  by_cases henv : (upper name == "STARTENV".toList) = true
  · refine ⟨{ st := leave (upper name != "STARTCODE".toList) st st1 }, st2, ?_, hrun2, ?_, ?_, ?_, hw2, hp2, hu2⟩
    · rw [hS]; simp only [startPost, hsb, henv, if_true]
    · simp only [henv, if_true]
    · show st1.warns = st.warns; rw [hw1]; rfl
    · show st1.prints = st.prints; rw [hp1]; rfl
  · refine ⟨{ st := leave (upper name != "STARTCODE".toList) st st1, out := ls.flatMap (·.2) }, st2, ?_, hrun2, ?_, ?_, ?_, hw2, hp2, hu2⟩
    · rw [hS]; simp only [startPost, hsb, henv, if_false, Bool.false_eq_true]
    · simp only [henv, if_false, Bool.false_eq_true]
    · show st1.warns = st.warns; rw [hw1]; rfl
    · show st1.prints = st.prints; rw [hp1]; rfl

theorem assocGet_none_iff {β : Type} (l : List (Str × β)) (k : Str) : assocGet l k = none ↔ ∀ p ∈ l, (p.1 == k) = false := by
  induction l with
  | nil => simp [assocGet]
  | cons p rest ih =>
    obtain ⟨k', v'⟩ := p
    simp only [assocGet, List.mem_cons, forall_eq_or_imp]
    cases h : (k' == k) with
    | true => simp
    | false => simp [ih]

theorem assocGet_reverse_none {β : Type} (l : List (Str × β)) (k : Str) (h : assocGet l k = none) : assocGet l.reverse k = none := by
  rw [assocGet_none_iff] at h ⊢
  intro p hp
  exact h p (List.mem_reverse.mp hp)

/-- **the latest definition wins** (START and STARTENV): what the file did not define is the importer's; what it defined — new or a
    redefinition of a name the importer already had — is the file's -/
theorem C12_start_latest_definition (name : Str) (st : St) (r : Out) (hn : upper name = "START".toList ∨ upper name = "STARTENV".toList) :
    ∃ rc, startPost name st r = .ok rc ∧
      (∀ f, assocGet r.st.env.funcs f = none → assocGet rc.st.env.funcs f = assocGet st.env.funcs f) ∧
      (∀ f fn, assocGet r.st.env.funcs.reverse f = some fn → assocGet rc.st.env.funcs f = some fn) ∧
      (∀ x, assocGet r.st.env.user x = none → assocGet rc.st.env.user x = assocGet st.env.user x) ∧
      (∀ x v, assocGet r.st.env.user.reverse x = some v → assocGet rc.st.env.user x = some v) := by
  have h1 : (upper name != "STARTCODE".toList) = true := by rcases hn with h | h <;> rw [h] <;> decide
  have henv : (startBaseWarn r.st r.sig).env = r.st.env := by simp only [startBaseWarn]; split <;> simp [addWarn] <;> split <;> rfl
  have hf : ∀ f, assocGet (leave true st (startBaseWarn r.st r.sig)).env.funcs f = assocGet (assocUpdate st.env.funcs r.st.env.funcs) f := by
    intro f; simp only [leave, henv, if_true, VEnv.exitParallel]
  have hu : ∀ x, assocGet (leave true st (startBaseWarn r.st r.sig)).env.user x = assocGet (assocUpdate st.env.user r.st.env.user) x := by
    intro x; simp only [leave, henv, if_true, VEnv.exitParallel]
  by_cases henvk : (upper name == "STARTENV".toList) = true
  · refine ⟨{ st := leave true st (startBaseWarn r.st r.sig) }, by unfold startPost; simp only [h1, henvk, if_true], ?_, ?_, ?_, ?_⟩
    · intro f h; simp only [hf, assocGet_assocUpdate, assocGet_reverse_none _ _ h]
    · intro f fn h; simp only [hf, assocGet_assocUpdate, h]
    · intro x h; simp only [hu, assocGet_assocUpdate, assocGet_reverse_none _ _ h]
    · intro x v h; simp only [hu, assocGet_assocUpdate, h]
  · refine ⟨{ st := leave true st (startBaseWarn r.st r.sig), out := r.out }, by unfold startPost; simp only [h1, henvk, if_false, Bool.false_eq_true], ?_, ?_, ?_, ?_⟩
    · intro f h; simp only [hf, assocGet_assocUpdate, assocGet_reverse_none _ _ h]
    · intro f fn h; simp only [hf, assocGet_assocUpdate, h]
    · intro x h; simp only [hu, assocGet_assocUpdate, assocGet_reverse_none _ _ h]
    · intro x v h; simp only [hu, assocGet_assocUpdate, h]

end Duckling.Props.C12
