import Duckling.Model.Compile
import Duckling.Lemmas.RBasic
/-
  C13 — import cycles are rejected; shared imports are not.

  The files "currently being compiled" are the files of the stacks on the pile: `ctx.frames.map (·.file) ++ [ctx.file]`.
  * `C13_pile_files`          creating a stack for file `f` from a stack whose pile has files `F` gives a pile with files `F ++ [f]`
                               — for IF/loop bodies `f` is the same file, for RUN the file that defined the function, for START the
                               imported file: "through any chain of files and function calls" is in the context itself;
  * `C13_cycle_rejected`      a START/STARTCODE/STARTENV whose target is the file of any live stack is CircularStructureError, raised
                               at that command (so its trace is the chain of frames that led there), and nothing is compiled;
  * `C13_no_false_cycle`      a target that is not the file of a live stack, exists and parses, is loaded: the circular check never
                               fires for it — in particular for a file imported earlier and finished (repeats, diamonds): the context of the
                               next statement is the context of the previous one, finished imports leave no trace in it;
  * `C13_context_unchanged`   `runNodes` runs every statement of a block in the same context.
  That the Python pile (a shared mutable list) really drops finished stacks is validated by the
  correspondence on all import graphs over ≤ 3 files (quick) / 4 files (thorough).
-/
namespace Duckling.Props.C13
open Duckling

/-- the files of the live stacks -/
def pileFiles (ctx : Ctx) : List (Option Path) := ctx.frames.map (·.file) ++ [ctx.file]

theorem C13_pile_files (ctx : Ctx) (pos : Pos) (f : Option Path) :
    pileFiles (ctx.child pos f) = pileFiles ctx ++ [f] := by
  simp [pileFiles, Ctx.child, Ctx.trace]

theorem C13_cycle_rejected (ctx : Ctx) (pos : Pos) (a : Arg) (st : St) (file target : Path) (text : Str)
    (hf : ctx.file = some file) (hchars : a.str.all pathCharOk = true)
    (hres : resolveImport file a.str = .ok target) (hread : ctx.fs.read target = some text)
    (hlive : some target ∈ pileFiles ctx) :
    loadImport ctx pos a st = raise ctx pos st .circularStructure := by
  have : (ctx.frames.map (·.file) ++ [some file]).contains (some target) = true := by
    simpa [pileFiles, hf] using hlive
  unfold loadImport
  simp only [hf, hchars, hres, hread, this, Bool.not_true, Bool.false_eq_true, if_false, if_true]

theorem C13_no_false_cycle (ctx : Ctx) (pos : Pos) (a : Arg) (st : St) (file target : Path) (text : Str) (nodes : List Node)
    (hf : ctx.file = some file) (hchars : a.str.all pathCharOk = true)
    (hres : resolveImport file a.str = .ok target) (hread : ctx.fs.read target = some text)
    (hparse : parseLines (splitLines text) = .ok nodes)
    (hnot : some target ∉ pileFiles ctx) :
    loadImport ctx pos a st = .ok (target, nodes) := by
  have : (ctx.frames.map (·.file) ++ [some file]).contains (some target) = false := by
    have : ¬ some target ∈ ctx.frames.map (·.file) ++ [some file] := by simpa [pileFiles, hf] using hnot
    simpa using this
  unfold loadImport
  simp only [hf, hchars, hres, hread, this, hparse, Bool.not_true, Bool.false_eq_true, if_false]

/-- the circular error carries the chain: its trace is the pile at the START command -/
theorem C13_cycle_trace (ctx : Ctx) (pos : Pos) (st : St) :
    (raise ctx pos st .circularStructure : R (Path × List Node)) =
      .err { k := .circularStructure, trace := some (ctx.frames ++ [⟨ctx.file, pos.line, pos.line2⟩]), prints := some st.prints } := rfl

/-- every statement of a block runs in the same context: a finished import leaves nothing behind in it -/
theorem C13_context_unchanged (child : Option ChildFn) (ctx : Ctx) (l : PreLine) (rest : List Node) (st : St) (out : List Str) :
    runNodes child ctx (.line l :: rest) st out =
      (stepCmd child ctx l (nextBlock rest) st >>= fun r =>
        if r.sig == .normal then runNodes child ctx rest r.st (out ++ r.out)
        else .ok { st := r.st, out := out ++ r.out, sig := r.sig }) := rfl

/-- **whether an import is accepted depends only on the files of the live stacks and on the file system** — not on the state (what was
    compiled, defined, printed or imported before), not on the line the command stands on, not on the frames' line numbers: an import
    that is accepted once is accepted again from any stack with the same live files — the same file several times one after the other,
    from a loop, from two branches, along two paths that meet in contexts with the same files -/
theorem C13_acceptance_is_history_independent (ctx ctx' : Ctx) (pos pos' : Pos) (a : Arg) (st st' : St) (v : Path × List Node)
    (hfile : ctx'.file = ctx.file) (hfs : ctx'.fs = ctx.fs) (hfiles : ctx'.frames.map (·.file) = ctx.frames.map (·.file))
    (h : loadImport ctx pos a st = .ok v) : loadImport ctx' pos' a st' = .ok v := by
  unfold loadImport at h ⊢
  rw [hfile, hfs, hfiles]
  cases hf : ctx.file with
  | none => simp [hf] at h
  | some file =>
    simp only [hf] at h ⊢
    split at h
    · cases h
    · rename_i hc
      simp only [hc, if_false]
      cases hr : resolveImport file a.str with
      | error k => simp [hr, raise] at h
      | ok target =>
        simp only [hr] at h ⊢
        cases hread : ctx.fs.read target with
        | none => simp [hread, raise] at h
        | some text =>
          simp only [hread] at h ⊢
          split at h
          · simp [raise] at h
          · rename_i hcyc
            simp only [hcyc, if_false]
            exact h

/-- in particular the next statement of the same block (same stack, same context) accepts what this one accepted -/
theorem C13_same_file_again (ctx : Ctx) (pos pos' : Pos) (a : Arg) (st st' : St) (v : Path × List Node)
    (h : loadImport ctx pos a st = .ok v) : loadImport ctx pos' a st' = .ok v :=
  C13_acceptance_is_history_independent ctx ctx pos pos' a st st' v rfl rfl rfl h

end Duckling.Props.C13
