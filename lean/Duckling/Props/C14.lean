import Duckling.Model.Compile
import Duckling.Lemmas.Mono
import Duckling.Lemmas.Seq
import Duckling.Lemmas.Chain
import Duckling.Lemmas.LexDigits
/-
  C14 — depth and iteration limits are exact and end in compile errors.

  Proved here (for every program, state, context and depth — no bound on sizes):
  * `C14_limit_stable`   a compilation that does not end in StackOverflowError gives the same result
                         under every larger stack limit (the limit is exact: it only ever adds the error);
  * `C14_full_pile_overflows` with no stack to spare every construct that needs a stack
                         (IF body, loop iteration, RUN, START) is a StackOverflowError, located at the command;
  * `C14_nest_exact`     **the limit is exact for every depth**: `k` IF / ELIF / ELSE blocks nested inside one another whose bodies run
                         (conditions true) around code that creates no stack compile with `d` stacks to spare iff `k ≤ d` — for
                         every `k` and every `d`, in every context and state: one more level is a StackOverflowError, one fewer is none;
  * `C14_nest_exact_general`  the same for ANY mixture of one-level block lines (`OneLevel`: whatever block follows, it runs in exactly one new stack
                         and nothing else can overflow): IF / ELIF / ELSE whose bodies run (`oneLevel_of_head`) and `REPEAT 1`
                         (`oneLevel_repeat1`: through dispatch, the count read by the character scanner, one iteration, the count read again)
                         — `REPEAT 1` in `ELSE` in `REPEAT 1` … `k` deep overflows with `d` stacks to spare iff `d < k`;
  * `C14_compile_nest_exact`  the same through `Compiler.compile`: a source that is such a nest of `k` blocks compiles under stack limit `L ≥ 1`
                         without StackOverflowError iff `k < L` — for every `k` and `L`;
  * `C14_sequential`     blocks that follow one another consume no depth: running `a ++ b` is running `a`
                         and then `b` with the same depth budget;
  * `C14_repeat_over_limit` / `C14_repeat_within_limit`  REPEAT accepts exactly the counts 0 … 20000;
  * `C14_while_budget_exhausted` / `C14_while_total`  WHILE starts at most 20001 condition checks and the
                         20002nd is ExceededLimitError; the loop functions are structurally recursive on that budget,
                         so a never-false WHILE terminates in the model by construction;
  * `C14_paren_limit`    a parenthesis depth above 100 is a StackOverflowError of the scanner;
  * `C14_limits_are_documented`  the limits regenerated from the source are 20000 / 20000 / 100 and the CLI bounds 5..200.
  Not provable in this family: that CPython's own recursion limit is not hit first (measured by the
  harness; known finding D13).
-/
namespace Duckling.Props.C14
open Duckling

/-- raising the stack limit never changes a result that was not a StackOverflowError -/
theorem C14_limit_stable (o o' : Opts) (fs : FS) (file : Option Path) (src : Source)
    (hle : o.stackLimit ≤ o'.stackLimit) (hflags : o'.flags = o.flags)
    (hn : ∀ e, compile o fs file src = .err e → e.k ≠ .stackOverflow) :
    compile o' fs file src = compile o fs file src := by
  unfold compile at hn ⊢
  cases hp : prepare src with
  | error e => cases e <;> simp [hp]
  | ok nodes =>
    simp only [hp, hflags] at hn ⊢
    have hso : (exec (o.stackLimit - 1) nodes { opts := o.flags, fs := fs, frames := [], file := file } { env := initEnv }).isSO = false := by
      cases hx : exec (o.stackLimit - 1) nodes { opts := o.flags, fs := fs, frames := [], file := file } { env := initEnv } with
      | err e =>
        have := hn e (by simp [hx])
        simp [R.isSO, this]
      | ok r => rfl
      | crash e => rfl
      | oom w => rfl
    rw [exec_stable (o.stackLimit - 1) (o'.stackLimit - 1) (by omega) nodes _ _ hso]

/-- with no stack to spare, whatever needs a new stack is a StackOverflowError at that command -/
theorem C14_full_pile_overflows (ctx : Ctx) (pos : Pos) (st : St) (code : List Node) (file : Option Path) (cst : St) :
    runChild none ctx pos st code file cst
      = .err { k := .stackOverflow, trace := some (ctx.frames ++ [⟨ctx.file, pos.line, pos.line2⟩]), prints := some st.prints } := rfl

/-- a stack with `d` more to spare hands `d - 1` to the stacks it creates: `exec (d+1)` runs its
    commands with `exec d` as the child executor, `exec 0` with none -/
theorem C14_depth_accounting (d : Nat) (nodes : List Node) (ctx : Ctx) (st : St) :
    exec (d + 1) nodes ctx st = runNodes (some (exec d)) ctx nodes st [] ∧
    exec 0 nodes ctx st = runNodes none ctx nodes st [] := ⟨rfl, rfl⟩

/-- blocks that follow one another consume no depth -/
theorem C14_sequential (d : Nat) (a b : List Node) (ctx : Ctx) (st : St) (hb : nextBlock b = none) :
    exec d (a ++ b) ctx st =
      (exec d a ctx st >>= fun o => if o.sig == .normal then
          (match d with | 0 => runNodes none ctx b o.st o.out | k + 1 => runNodes (some (exec k)) ctx b o.st o.out)
        else .ok o) := by
  cases d with
  | zero => exact runNodes_append none ctx a b st [] hb
  | succ k => exact runNodes_append (some (exec k)) ctx a b st [] hb

/-- REPEAT rejects a count above the limit -/
theorem C14_repeat_over_limit (ctx : Ctx) (pos : Pos) (st : St) (s : Str) (n : Int)
    (hv : tokenize st.env.allVars s = .ok (.int n)) (hn : n > repeatLimit) :
    tokenizeCount ctx pos st s = raise ctx pos st .invalidArguments := by
  have h2 : ¬ n < 0 := by have : (0 : Int) ≤ repeatLimit := Int.natCast_nonneg _; omega
  simp [tokenizeCount, evalIn, liftO, hv, bind, hn, h2]

/-- … and accepts every count from 0 to the limit -/
theorem C14_repeat_within_limit (ctx : Ctx) (pos : Pos) (st : St) (s : Str) (n : Nat)
    (hv : tokenize st.env.allVars s = .ok (.int n)) (hn : n ≤ repeatLimit) :
    tokenizeCount ctx pos st s = .ok n := by
  have h1 : ¬ ((n : Int) > repeatLimit) := by omega
  have h2 : ¬ ((n : Int) < 0) := by omega
  simp [tokenizeCount, evalIn, liftO, hv, bind, h1, h2]

/-- the 20002nd start of a WHILE iteration is the ExceededLimitError -/
theorem C14_while_budget_exhausted (child : Option ChildFn) (ctx : Ctx) (pos : Pos) (var : Option Str) (cond : Str)
    (body : List Node) (count : Nat) (st : St) (out : List Str) :
    whileLoop child ctx pos var cond body 0 count st out = raise ctx pos st .exceededLimit := rfl

/-- a WHILE statement starts with a budget of limit + 1 iterations -/
theorem C14_while_total (child : Option ChildFn) (ctx : Ctx) (pos : Pos) (block : List Node) (var : Option Str) (cond : Str) (st : St) :
    runBlockAct child ctx pos block (.while var cond st) = whileLoop child ctx pos var cond block (whileLimit + 1) 0 st [] := rfl

/-- one parenthesis too many is the scanner's StackOverflowError -/
theorem C14_paren_limit (ign closed opp : Bool) :
    addChar (.grp parenLimit ign closed opp) '(' = (if ign then .ok (.grp parenLimit ign closed opp, .T) else .cerr .stackOverflow) := by
  cases ign <;> simp [addChar, parenLimit, Generated.parenLimit]

/-- the limits the translator found in the source are the documented ones -/
theorem C14_limits_are_documented :
    repeatLimit = 20000 ∧ whileLimit = 20000 ∧ parenLimit = 100 ∧
    Generated.cliStackMin = 5 ∧ Generated.cliStackMax = 200 ∧ Generated.optDefaults.stackLimit = 20 := by decide

/-! ### exactness of the depth limit on nested blocks -/

/-- the head line of an IF / ELIF / ELSE block -/
structure Head where
  l : PreLine
  word : Str
  arg : Option Str

def Head.Ok (h : Head) : Prop :=
  splitWs1 h.l.content = some (h.word, h.arg) ∧
  (upper h.word = "IF".toList ∨ upper h.word = "ELIF".toList ∨ upper h.word = "ELSE".toList)

/-- the body of the block runs whenever no branch of the chain has run yet (IF with a true condition; ELSE) -/
def Head.Runs (h : Head) : Prop :=
  ∀ ctx st, ifFlag st = false → ∃ st', ifPre ctx ⟨h.l.num, none⟩ h.word (h.arg.map strip) st = .ok (.body st')

/-- `heads` nested inside one another around `leaf` -/
def nest : List Head → List Node → List Node
  | [], leaf => leaf
  | h :: hs, leaf => [.line h.l, .block (nest hs leaf)]

theorem nest_ne_nil (hs : List Head) (leaf : List Node) (hl : leaf ≠ []) : nest hs leaf ≠ [] := by
  cases hs with
  | nil => exact hl
  | cons h t => simp [nest]

theorem isSO_bind_ok {α β : Type} (x : R α) (f : α → R β) (hf : ∀ a, (f a).isSO = false) : (x >>= f).isSO = x.isSO := by
  cases x with
  | ok a => exact hf a
  | err e => rfl
  | crash e => rfl
  | oom w => rfl

theorem ifFlag_enterSt (st : St) : ifFlag (enterSt st) = false := by
  simp [ifFlag, enterSt, VEnv.enter, assocGet]

/-- **exactness**: a nest of `k` running blocks around stack-free code overflows with `d` stacks to spare iff `d < k` -/
theorem C14_nest_exact (leaf : List Node) (hl : leaf ≠ []) (hleaf : ∀ d ctx st, (exec d leaf ctx st).isSO = false) :
    ∀ (heads : List Head), (∀ h ∈ heads, h.Ok) → (∀ h ∈ heads, h.Runs) →
      ∀ (d : Nat) (ctx : Ctx) (st : St), ifFlag st = false →
        ((exec d (nest heads leaf) ctx st).isSO = true ↔ d < heads.length) := by
  intro heads
  induction heads with
  | nil =>
    intro _ _ d ctx st _
    simp [nest, hleaf d ctx st]
  | cons h hs ih =>
    intro hok hruns d ctx st hflag
    have hOk := hok h List.mem_cons_self
    obtain ⟨st', hpre⟩ := hruns h List.mem_cons_self ctx st hflag
    let a : Arm := ⟨h.l, h.word, h.arg, nest hs leaf⟩
    have haOk : a.Ok := ⟨hOk.1, by
      have := nest_ne_nil hs leaf hl
      cases hn : nest hs leaf with
      | nil => exact absurd hn this
      | cons x y => simp [hasBlockOf, a, hn], hOk.2⟩
    -- one level: the block command creates one stack for the body
    have hstep : ∀ child, runNodes child ctx (nest (h :: hs) leaf) st [] =
        ((runChild child ctx ⟨h.l.num, none⟩ st' (nest hs leaf) ctx.file (enterSt st') >>= fun r =>
          (.ok { st := leave false st' r.st, out := r.out, sig := r.sig } : Res)) >>= fun r =>
          if r.sig == .normal then (.ok { st := r.st, out := [] ++ r.out, sig := .normal } : Res)
          else .ok { st := r.st, out := [] ++ r.out, sig := r.sig }) := by
      intro child
      simp only [nest, runNodes, nextBlock]
      have := stepCmd_arm child ctx a haOk st
      simp only [a] at this
      rw [this, hpre]
      simp only [R.bind_ok, runBlockAct]
    have hnoSO : ∀ (r : Out), (if r.sig == .normal then (.ok { st := r.st, out := [] ++ r.out, sig := .normal } : Res)
          else .ok { st := r.st, out := [] ++ r.out, sig := r.sig }).isSO = false := by
      intro r
      split <;> rfl
    have hnoSO2 : ∀ (r : Out), ((.ok { st := leave false st' r.st, out := r.out, sig := r.sig } : Res)).isSO = false := fun _ => rfl
    cases d with
    | zero =>
      have : (exec 0 (nest (h :: hs) leaf) ctx st).isSO = true := by
        show (runNodes none ctx (nest (h :: hs) leaf) st []).isSO = true
        rw [hstep none, isSO_bind_ok _ _ hnoSO, isSO_bind_ok _ _ hnoSO2]
        simp [runChild, overflowErr_isSO]
      simp [this]
    | succ d =>
      have : (exec (d + 1) (nest (h :: hs) leaf) ctx st).isSO = (exec d (nest hs leaf) (ctx.child ⟨h.l.num, none⟩ ctx.file) (enterSt st')).isSO := by
        show (runNodes (some (exec d)) ctx (nest (h :: hs) leaf) st []).isSO = _
        rw [hstep (some (exec d)), isSO_bind_ok _ _ hnoSO, isSO_bind_ok _ _ hnoSO2]
        rfl
      rw [this, ih (fun x hx => hok x (List.mem_cons_of_mem _ hx)) (fun x hx => hruns x (List.mem_cons_of_mem _ hx)) d _ _ (ifFlag_enterSt st')]
      simp

/-- non-vacuity: an ELSE block runs its body whenever no branch has run yet — `ELSE` nested in `ELSE` nested in … is such a nest -/
theorem else_head_runs (n : Nat) : (⟨⟨"ELSE".toList, n⟩, "ELSE".toList, none⟩ : Head).Ok ∧ (⟨⟨"ELSE".toList, n⟩, "ELSE".toList, none⟩ : Head).Runs := by
  refine ⟨⟨(by show splitWs1 "ELSE".toList = some ("ELSE".toList, none); decide), Or.inr (Or.inr (by show upper "ELSE".toList = "ELSE".toList; decide))⟩, ?_⟩
  intro ctx st hflag
  have hup : upper "ELSE".toList = "ELSE".toList := by decide
  refine ⟨setIfFlag (withFlag st) true, ?_⟩
  simp only [ifPre, hup, Option.map_none, Option.isNone_none, Option.isSome_none, bne_self_eq_false, Bool.and_false, Bool.false_and,
    Bool.false_eq_true, if_false, ifCond, R.bind_ok, ifDecide_eq, ifFlag_withFlag, hflag]
  simp

theorem ifFlag_initial : ifFlag ({ env := initEnv } : St) = false := by
  unfold initEnv
  split <;> simp [ifFlag, assocGet]

/-- **the stack limit is exact through `Compiler.compile`**: a program that is `k` running blocks nested inside one another around
    stack-free code ends in StackOverflowError under limit `L ≥ 1` iff `L ≤ k` — it compiles (or fails for another reason) iff `k < L` -/
theorem C14_compile_nest_exact (opts : Opts) (hlim : 1 ≤ opts.stackLimit) (fs : FS) (file : Option Path) (src : Source)
    (heads : List Head) (leaf : List Node) (hl : leaf ≠ []) (hleaf : ∀ d ctx st, (exec d leaf ctx st).isSO = false)
    (hok : ∀ h ∈ heads, h.Ok) (hruns : ∀ h ∈ heads, h.Runs) (hprep : prepare src = .ok (nest heads leaf)) :
    (∃ e, compile opts fs file src = .err e ∧ e.k = .stackOverflow) ↔ opts.stackLimit ≤ heads.length := by
  have hex := C14_nest_exact leaf hl hleaf heads hok hruns (opts.stackLimit - 1)
    { opts := opts.flags, fs := fs, frames := [], file := file } { env := initEnv } ifFlag_initial
  have hiff : (opts.stackLimit - 1 < heads.length) ↔ opts.stackLimit ≤ heads.length := by omega
  rw [← hiff, ← hex]
  unfold compile
  simp only [hprep]
  cases hr : exec (opts.stackLimit - 1) (nest heads leaf) { opts := opts.flags, fs := fs, frames := [], file := file } { env := initEnv } with
  | ok r => simp [R.isSO]
  | err e =>
    simp only [R.isSO, beq_iff_eq]
    constructor
    · rintro ⟨e', he', hk⟩
      cases he'; exact hk
    · intro hk; exact ⟨e, rfl, hk⟩
  | crash x => simp [R.isSO]
  | oom w => simp [R.isSO]

/-! ### the same for any kind of block line that creates exactly one level -/

/-- a block line that, whatever block follows it, runs that block in exactly one new stack and cannot overflow otherwise -/
def OneLevel (l : PreLine) : Prop :=
  ∀ (child : Option ChildFn) (ctx : Ctx) (st : St) (body : List Node), body ≠ [] → ifFlag st = false →
    ∃ (pos : Pos) (st0 : St) (file : Option Path) (cst : St) (k : Out → Res), (∀ r, (k r).isSO = false) ∧ ifFlag cst = false ∧
      stepCmd child ctx l (some body) st = (runChild child ctx pos st0 body file cst >>= k)

/-- block lines nested inside one another around `leaf` -/
def nestL : List PreLine → List Node → List Node
  | [], leaf => leaf
  | l :: ls, leaf => [.line l, .block (nestL ls leaf)]

theorem nestL_ne_nil (ls : List PreLine) (leaf : List Node) (hl : leaf ≠ []) : nestL ls leaf ≠ [] := by
  cases ls with
  | nil => exact hl
  | cons h t => simp [nestL]

/-- **exactness for any mixture of one-level block lines** (IF / ELIF / ELSE whose bodies run, `REPEAT 1`, …): `k` of them nested around
    stack-free code overflow with `d` stacks to spare iff `d < k` -/
theorem C14_nest_exact_general (leaf : List Node) (hl : leaf ≠ []) (hleaf : ∀ d ctx st, (exec d leaf ctx st).isSO = false) :
    ∀ (ls : List PreLine), (∀ l ∈ ls, OneLevel l) →
      ∀ (d : Nat) (ctx : Ctx) (st : St), ifFlag st = false → ((exec d (nestL ls leaf) ctx st).isSO = true ↔ d < ls.length) := by
  intro ls
  induction ls with
  | nil => intro _ d ctx st _; simp [nestL, hleaf d ctx st]
  | cons l rest ih =>
    intro hall d ctx st hflag
    have hbody := nestL_ne_nil rest leaf hl
    have hcont : ∀ (child : Option ChildFn) (r : Out), ((if r.sig == .normal then runNodes child ctx [.block (nestL rest leaf)] r.st ([] ++ r.out)
        else (.ok { st := r.st, out := [] ++ r.out, sig := r.sig } : Res))).isSO = false := by
      intro child r; split <;> simp [runNodes, R.isSO]
    have hstep : ∀ child, (runNodes child ctx (nestL (l :: rest) leaf) st []).isSO = (stepCmd child ctx l (some (nestL rest leaf)) st).isSO := by
      intro child
      simp only [nestL, runNodes, nextBlock]
      exact isSO_bind_ok _ _ (hcont child)
    cases d with
    | zero =>
      obtain ⟨pos, st0, file, cst, k, hk, _, heq⟩ := hall l List.mem_cons_self none ctx st _ hbody hflag
      have : (exec 0 (nestL (l :: rest) leaf) ctx st).isSO = true := by
        show (runNodes none ctx (nestL (l :: rest) leaf) st []).isSO = true
        rw [hstep none, heq, isSO_bind_ok _ _ hk]
        simp [runChild, overflowErr_isSO]
      simp [this]
    | succ d =>
      obtain ⟨pos, st0, file, cst, k, hk, hcf, heq⟩ := hall l List.mem_cons_self (some (exec d)) ctx st _ hbody hflag
      have : (exec (d + 1) (nestL (l :: rest) leaf) ctx st).isSO = (exec d (nestL rest leaf) (ctx.child pos file) cst).isSO := by
        show (runNodes (some (exec d)) ctx (nestL (l :: rest) leaf) st []).isSO = _
        rw [hstep (some (exec d)), heq, isSO_bind_ok _ _ hk]
        rfl
      rw [this, ih (fun x hx => hall x (List.mem_cons_of_mem _ hx)) d _ _ hcf]
      simp

/-- IF / ELIF / ELSE lines whose bodies run are one-level lines -/
theorem oneLevel_of_head (h : Head) (hok : h.Ok) (hruns : h.Runs) : OneLevel h.l := by
  intro child ctx st body hb hflag
  obtain ⟨st', hpre⟩ := hruns ctx st hflag
  let a : Arm := ⟨h.l, h.word, h.arg, body⟩
  have haOk : a.Ok := ⟨hok.1, by
    cases hn : body with
    | nil => exact absurd hn hb
    | cons x y => simp [hasBlockOf, a, hn], hok.2⟩
  refine ⟨⟨h.l.num, none⟩, st', ctx.file, enterSt st', fun r => .ok { st := leave false st' r.st, out := r.out, sig := r.sig },
    fun _ => rfl, ifFlag_enterSt st', ?_⟩
  have := stepCmd_arm child ctx a haOk st
  simp only [a] at this
  rw [this, hpre]
  simp only [R.bind_ok, runBlockAct]

/-- the count `1` evaluates to 1 in every state (through the scanner: a digit string is one number token) -/
theorem tokenizeCount_one (ctx : Ctx) (pos : Pos) (st : St) : tokenizeCount ctx pos st ['1'] = .ok 1 := by
  have ht : tokenize st.env.allVars ['1'] = .ok (.int 1) := by
    have := tokenize_digits st.env.allVars ['1'] (by simp) (by decide)
    simpa [digitsVal] using this
  have hlim : ¬ ((1 : Int) > (repeatLimit : Int)) := by decide
  simp [tokenizeCount, evalIn, ht, liftO, hlim]

def repeatRow : ClsDesc := (Generated.palette.find? (fun c => c.cname == "Repeat")).getD Generated.generic

theorem repeatRow_facts : (repeatRow.cname == "Repeat" && repeatRow.isBlock && !repeatRow.flipperOnly && repeatRow.strip &&
    repeatRow.argReq == .required) = true := by decide

theorem dispatch_repeat : dispatch "REPEAT".toList true = some repeatRow := by decide

/-- `REPEAT 1` followed by a block is a one-level line: one iteration in one new stack, then the count is read again and the loop ends -/
theorem oneLevel_repeat1 (n : Nat) : OneLevel ⟨"REPEAT 1".toList, n⟩ := by
  intro child ctx st body hb hflag
  have hsplit : splitWs1 "REPEAT 1".toList = some ("REPEAT".toList, some ['1']) := by decide
  have hhb : hasBlockOf (some body) = true := by
    cases hn : body with
    | nil => exact absurd hn hb
    | cons x y => simp [hasBlockOf]
  have hfacts := repeatRow_facts
  simp only [Bool.and_eq_true, Bool.not_eq_true', beq_iff_eq] at hfacts
  obtain ⟨⟨⟨⟨hcn, hblk⟩, hflip⟩, hstrip⟩, hreq⟩ := hfacts
  have hlim : repeatLimit + 1 = (repeatLimit - 1 + 1) + 1 := by decide
  let k : Out → Res := fun r =>
    match afterIter st [] r with
    | (st', out', some s) => .ok { st := st', out := out', sig := s }
    | (st', out', none) => repeatLoop child ctx ⟨n, none⟩ none ['1'] body (repeatLimit - 1 + 1) 1 st' out'
  have hk : ∀ r, (k r).isSO = false := by
    intro r
    simp only [k]
    split
    · rfl
    · rw [repeatLoop]
      simp [tokenizeCount_one, R.isSO]
  refine ⟨⟨n, none⟩, st, ctx.file, enterSt st, k, hk, ifFlag_enterSt st, ?_⟩
  have hstrip1 : strip ['1'] = ['1'] := by decide
  have hpla : parseLoopArg ['1'] = (none, ['1']) := by decide
  simp only [stepCmd, hsplit, hhb, dispatch_repeat, hblk, if_true, compileBlock, blockPre, hflip, hreq, hstrip, hcn, Option.map_some,
    hstrip1, repeatPre, hpla, Option.getD_some, Bool.false_and, Bool.false_eq_true, if_false, List.isEmpty_cons, Bool.not_false,
    Bool.true_and, Option.isSome_none, R.bind_ok, runBlockAct, show (ArgReq.required == ArgReq.notAllowed) = false from rfl,
    show (ArgReq.required == ArgReq.required) = true from rfl, Bool.and_false, Bool.and_true, Bool.true_eq_false]
  simp only [Bool.not_true, Bool.false_eq_true, if_false, R.bind_ok, runBlockAct]
  rw [hlim, repeatLoop]
  simp only [tokenizeCount_one, R.bind_ok, bindCounter]
  cases child with
  | none => simp [guardChild, runChild, overflowErr, bind]
  | some c => rfl

/-- non-vacuity: IF-less mixtures such as `REPEAT 1` in `ELSE` in `REPEAT 1` … are nests of one-level lines -/
example : ∀ l ∈ [(⟨"REPEAT 1".toList, 1⟩ : PreLine), ⟨"ELSE".toList, 2⟩, ⟨"REPEAT 1".toList, 3⟩], OneLevel l := by
  intro l hl
  simp only [List.mem_cons, List.mem_nil_iff, or_false] at hl
  rcases hl with rfl | rfl | rfl
  · exact oneLevel_repeat1 1
  · exact oneLevel_of_head ⟨⟨"ELSE".toList, 2⟩, "ELSE".toList, none⟩ (else_head_runs 2).1 (else_head_runs 2).2
  · exact oneLevel_repeat1 3

/-- … and through `Compiler.compile`: a source that is `k` one-level block lines nested around stack-free code ends in StackOverflowError
    under stack limit `L ≥ 1` iff `L ≤ k` -/
theorem C14_compile_nest_exact_general (opts : Opts) (hlim : 1 ≤ opts.stackLimit) (fs : FS) (file : Option Path) (src : Source)
    (ls : List PreLine) (leaf : List Node) (hl : leaf ≠ []) (hleaf : ∀ d ctx st, (exec d leaf ctx st).isSO = false)
    (hall : ∀ l ∈ ls, OneLevel l) (hprep : prepare src = .ok (nestL ls leaf)) :
    (∃ e, compile opts fs file src = .err e ∧ e.k = .stackOverflow) ↔ opts.stackLimit ≤ ls.length := by
  have hex := C14_nest_exact_general leaf hl hleaf ls hall (opts.stackLimit - 1)
    { opts := opts.flags, fs := fs, frames := [], file := file } { env := initEnv } ifFlag_initial
  have hiff : (opts.stackLimit - 1 < ls.length) ↔ opts.stackLimit ≤ ls.length := by omega
  rw [← hiff, ← hex]
  unfold compile
  simp only [hprep]
  cases hr : exec (opts.stackLimit - 1) (nestL ls leaf) { opts := opts.flags, fs := fs, frames := [], file := file } { env := initEnv } with
  | ok r => simp [R.isSO]
  | err e =>
    simp only [R.isSO, beq_iff_eq]
    constructor
    · rintro ⟨e', he', hk⟩
      cases he'; exact hk
    · intro hk; exact ⟨e, rfl, hk⟩
  | crash x => simp [R.isSO]
  | oom w => simp [R.isSO]

end Duckling.Props.C14
