import Duckling.Model.Compile
import Duckling.Lemmas.Mono
import Duckling.Lemmas.Seq
/-
  C14 — depth and iteration limits are exact and end in compile errors.

  Proved here (for every program, state, context and depth — no bound on sizes):
  * `C14_limit_stable`   a compilation that does not end in StackOverflowError gives the same result
                         under every larger stack limit (the limit is exact: it only ever adds the error);
  * `C14_full_pile_overflows` with no stack to spare every construct that needs a stack
                         (IF body, loop iteration, RUN, START) is a StackOverflowError, located at the command;
  * `C14_sequential`     blocks that follow one another consume no depth: running `a ++ b` is running `a`
                         and then `b` with the same depth budget;
  * `C14_repeat_over_limit` / `C14_repeat_within_limit`  REPEAT accepts exactly the counts 0 … 20000;
  * `C14_while_budget_exhausted` / `C14_while_total`  WHILE starts at most 20001 condition checks and the
                         20002nd is ExceededLimitError; the loop functions are structurally recursive on that budget,
                         so a never-false WHILE terminates in the model by construction;
  * `C14_paren_limit`    a parenthesis depth above 100 is a StackOverflowError of the scanner;
  * `C14_limits_are_documented`  the limits regenerated from the source are 20000 / 20000 / 100 and the CLI bounds 5..200.
  Not provable in this family: that CPython's own recursion limit is not hit first (measured by the
  harness; known finding D13).
-/
namespace Duckling.Props.C14
open Duckling

/-- raising the stack limit never changes a result that was not a StackOverflowError -/
theorem C14_limit_stable (o o' : Opts) (fs : FS) (file : Option Path) (src : Source)
    (hle : o.stackLimit ≤ o'.stackLimit) (hflags : o'.flags = o.flags)
    (hn : ∀ e, compile o fs file src = .err e → e.k ≠ .stackOverflow) :
    compile o' fs file src = compile o fs file src := by
  unfold compile at hn ⊢
  cases hp : prepare src with
  | error e => cases e <;> simp [hp]
  | ok nodes =>
    simp only [hp, hflags] at hn ⊢
    have hso : (exec (o.stackLimit - 1) nodes { opts := o.flags, fs := fs, frames := [], file := file } { env := initEnv }).isSO = false := by
      cases hx : exec (o.stackLimit - 1) nodes { opts := o.flags, fs := fs, frames := [], file := file } { env := initEnv } with
      | err e =>
        have := hn e (by simp [hx])
        simp [R.isSO, this]
      | ok r => rfl
      | crash e => rfl
      | oom w => rfl
    rw [exec_stable (o.stackLimit - 1) (o'.stackLimit - 1) (by omega) nodes _ _ hso]

/-- with no stack to spare, whatever needs a new stack is a StackOverflowError at that command -/
theorem C14_full_pile_overflows (ctx : Ctx) (pos : Pos) (st : St) (code : List Node) (file : Option Path) (cst : St) :
    runChild none ctx pos st code file cst
      = .err { k := .stackOverflow, trace := some (ctx.frames ++ [⟨ctx.file, pos.line, pos.line2⟩]), prints := some st.prints } := rfl

/-- a stack with `d` more to spare hands `d - 1` to the stacks it creates: `exec (d+1)` runs its
    commands with `exec d` as the child executor, `exec 0` with none -/
theorem C14_depth_accounting (d : Nat) (nodes : List Node) (ctx : Ctx) (st : St) :
    exec (d + 1) nodes ctx st = runNodes (some (exec d)) ctx nodes st [] ∧
    exec 0 nodes ctx st = runNodes none ctx nodes st [] := ⟨rfl, rfl⟩

/-- blocks that follow one another consume no depth -/
theorem C14_sequential (d : Nat) (a b : List Node) (ctx : Ctx) (st : St) (hb : nextBlock b = none) :
    exec d (a ++ b) ctx st =
      (exec d a ctx st >>= fun o => if o.sig == .normal then
          (match d with | 0 => runNodes none ctx b o.st o.out | k + 1 => runNodes (some (exec k)) ctx b o.st o.out)
        else .ok o) := by
  cases d with
  | zero => exact runNodes_append none ctx a b st [] hb
  | succ k => exact runNodes_append (some (exec k)) ctx a b st [] hb

/-- REPEAT rejects a count above the limit -/
theorem C14_repeat_over_limit (ctx : Ctx) (pos : Pos) (st : St) (s : Str) (n : Int)
    (hv : tokenize st.env.allVars s = .ok (.int n)) (hn : n > repeatLimit) :
    tokenizeCount ctx pos st s = raise ctx pos st .invalidArguments := by
  have h2 : ¬ n < 0 := by have : (0 : Int) ≤ repeatLimit := Int.natCast_nonneg _; omega
  simp [tokenizeCount, evalIn, liftO, hv, bind, hn, h2]

/-- … and accepts every count from 0 to the limit -/
theorem C14_repeat_within_limit (ctx : Ctx) (pos : Pos) (st : St) (s : Str) (n : Nat)
    (hv : tokenize st.env.allVars s = .ok (.int n)) (hn : n ≤ repeatLimit) :
    tokenizeCount ctx pos st s = .ok n := by
  have h1 : ¬ ((n : Int) > repeatLimit) := by omega
  have h2 : ¬ ((n : Int) < 0) := by omega
  simp [tokenizeCount, evalIn, liftO, hv, bind, h1, h2]

/-- the 20002nd start of a WHILE iteration is the ExceededLimitError -/
theorem C14_while_budget_exhausted (child : Option ChildFn) (ctx : Ctx) (pos : Pos) (var : Option Str) (cond : Str)
    (body : List Node) (count : Nat) (st : St) (out : List Str) :
    whileLoop child ctx pos var cond body 0 count st out = raise ctx pos st .exceededLimit := rfl

/-- a WHILE statement starts with a budget of limit + 1 iterations -/
theorem C14_while_total (child : Option ChildFn) (ctx : Ctx) (pos : Pos) (block : List Node) (var : Option Str) (cond : Str) (st : St) :
    runBlockAct child ctx pos block (.while var cond st) = whileLoop child ctx pos var cond block (whileLimit + 1) 0 st [] := rfl

/-- one parenthesis too many is the scanner's StackOverflowError -/
theorem C14_paren_limit (ign closed opp : Bool) :
    addChar (.grp parenLimit ign closed opp) '(' = (if ign then .ok (.grp parenLimit ign closed opp, .T) else .cerr .stackOverflow) := by
  cases ign <;> simp [addChar, parenLimit, Generated.parenLimit]

/-- the limits the translator found in the source are the documented ones -/
theorem C14_limits_are_documented :
    repeatLimit = 20000 ∧ whileLimit = 20000 ∧ parenLimit = 100 ∧
    Generated.cliStackMin = 5 ∧ Generated.cliStackMax = 200 ∧ Generated.optDefaults.stackLimit = 20 := by decide

end Duckling.Props.C14
