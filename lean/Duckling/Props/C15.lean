import Duckling.Model.Compile
import Duckling.Lemmas.RBasic
import Duckling.Lemmas.OptsOut
import Duckling.Lemmas.SimInst
/-
  C15 — options do what they say through every entry point.

  * `C15_project_iff`        the effective options are the project file's iff the global options allow project configs, the file
                              exists and it allows them itself; otherwise they are the global options, and then nothing is written;
  * `C15_project_complete`   when the project file is used, fields it omits take the class defaults (not the global values) and
                              the file is rewritten with exactly the effective options;
  * `C15_config_meaning`     the rewritten project file denotes the same options as before;
  * `C15_rem_site`           REM emits `REM text` iff comments are enabled; either way state and signal are untouched;
  * `C15_flipper_gate`       a Flipper-only class with Flipper commands disabled is InvalidCommand (before anything else of the
                              command happens); with them enabled the gate does nothing — in every stack (the options are part of the context of every child);
  * `C15_suppress`           with suppression on, an unknown word adds no warning; off, it adds the located one;
  * `C15_options_reach_children`  the context of a child stack carries the same options as its parent;
  * `C15_entry_points`       `compile_file` is `compile` of the file's text with the effective options and the file as location.
  * `C15_comments_off_no_rem`   **whole programs**: with comments off, no output line of any program without IGNORE blocks begins
                              with REM — at any nesting, through calls and imports (the options of a compilation are the options of
                              every stack it creates; hereditary walk instance with the context invariant "comments are off");
  * `C15_flipper_off_no_flipper_line`  likewise with Flipper commands off no output line begins with a Flipper-only command word;
  * `C15_compile_comments_off` / `C15_compile_flipper_off`  the same for `Compiler.compile`.
  * `C15_suppress_whole`        **two whole compilations related**: compiling with unknown-command warnings suppressed gives exactly the
                              result of compiling without suppression — same output, prints, variables, the same error with the same
                              trace — with the unknown-command warnings removed from the warning list and every other warning kept in
                              order (any source whose command lines are non-blank, any file system; `C15_suppress_text` for text, where
                              that hypothesis is discharged by the parser theorem);
  * `C15_comments_whole`        compiling with comments off gives exactly the result of compiling with comments on with the REM lines
                              filtered out of the output: the same warnings, prints, variables, the same error — REM changes nothing
                              but its own line (programs without IGNORE blocks, which may emit any text);
  * `C15_flipper_whole`         either the compilation fails with InvalidCommand, or compiling with Flipper commands enabled gives the
                              very same result: the Flipper option only ever adds that error (`C15_flipper_text` for text).
  These three are instances of the simulation walk (Lemmas/Sim, Lemmas/SimInst): two runs of the same code in lock-step through
  every function of the interpreter, for any nesting, calls and imports.
-/
namespace Duckling.Props.C15
open Duckling

theorem C15_project_iff (g : Opts) (proj : Option ProjCfg) :
    (calculateOptions g proj).1 =
      (match proj with
       | some c => if g.useProject && c.toOpts.useProject then c.toOpts else g
       | none => g) ∧
    ((calculateOptions g proj).2.isSome ↔ ∃ c, proj = some c ∧ g.useProject = true ∧ c.toOpts.useProject = true) := by
  unfold calculateOptions
  cases hg : g.useProject <;> cases proj with
  | none => simp
  | some c => cases hc : c.toOpts.useProject <;> simp [hc]

theorem C15_project_complete (g : Opts) (c : ProjCfg) (hg : g.useProject = true) (hc : c.toOpts.useProject = true) :
    calculateOptions g (some c) = (c.toOpts, some c.toOpts.toCfg) ∧
    c.toOpts.stackLimit = c.stackLimit.getD Generated.optDefaults.stackLimit ∧
    c.toOpts.comments = c.comments.getD Generated.optDefaults.includeComments := by
  refine ⟨?_, rfl, rfl⟩
  simp only [calculateOptions, hg, hc, Bool.not_true, Bool.false_eq_true, if_false]

theorem C15_config_meaning (o : Opts) : o.toCfg.toOpts = o := by
  cases o; simp [Opts.toCfg, ProjCfg.toOpts]

theorem C15_rewrite_keeps_meaning (g : Opts) (c c' : ProjCfg) (h : (calculateOptions g (some c)).2 = some c') :
    c'.toOpts = c.toOpts := by
  unfold calculateOptions at h
  split at h
  · cases h
  · by_cases hp : (!c.toOpts.useProject) = true
    · simp [hp] at h
    · simp only [hp, Bool.false_eq_true, if_false, Option.some.injEq] at h
      rw [← h]; exact C15_config_meaning _

theorem C15_rem_site (ctx : Ctx) (c : ClsDesc) (name : Str) (line : Nat) (a : Arg) (s : Str) (st : St)
    (hc : c.cname = "Rem") (hh : hasHook c "run_compile" = true) (hs : a.content = .str s) :
    runCompileLocal ctx c name line (some a) st =
      (if ctx.opts.comments then .ok { st := st, out := [upper name ++ [' '] ++ s], sig := some .normal }
       else .ok { st := st, out := [], sig := none }) := by
  cases hcom : ctx.opts.comments <;> simp [runCompileLocal, hc, hh, hcom, defaultEmit, hs]

theorem C15_flipper_gate (ctx : Ctx) (c : ClsDesc) (word : Str) (line : Nat) (arg : Option Str) (block : Option (List Node)) (st : St)
    (hf : c.flipperOnly = true) (hoff : ctx.opts.flipper = false) :
    simplePre ctx c word line arg block st = raise ctx ⟨line, none⟩ st .invalidCommand := by
  simp [simplePre, hf, hoff]

theorem C15_suppress (child : Option ChildFn) (ctx : Ctx) (l : PreLine) (block : Option (List Node)) (st : St)
    (word : Str) (arg : Option Str) (hsplit : splitWs1 l.content = some (word, arg))
    (hunknown : dispatch word (hasBlockOf block) = none) (hs : ctx.opts.suppress = true) :
    stepCmd child ctx l block st = compileSimple child ctx Generated.generic word l.num arg block st := by
  simp [stepCmd, hsplit, hunknown, hs]

theorem C15_options_reach_children (ctx : Ctx) (pos : Pos) (f : Option Path) : (ctx.child pos f).opts = ctx.opts ∧ (ctx.child pos f).fs = ctx.fs := ⟨rfl, rfl⟩

theorem C15_entry_points (o : Opts) (fs : FS) (cfgs : List (Path × ProjCfg)) (file : Path) (text : Str) (h : fs.read file = some text)
    (hlim : (calculateOptions o ((cfgs.find? (·.1 == parentDir file)).map (·.2))).1.stackLimit ≠ 0) :
    (compileFile o fs cfgs file).1 =
      compile (calculateOptions o ((cfgs.find? (·.1 == parentDir file)).map (·.2))).1 fs (some file) (.text text) := by
  simp [compileFile, h, hlim]

open Duckling.Spec in
/-- **comments off ⇒ no REM line**, for every program without IGNORE, any depth, context (with comments off) and state -/
theorem C15_comments_off_no_rem (d : Nat) (nodes : List Node) (ctx : Ctx) (st : St) (o : Out)
    (hoff : ctx.opts.comments = false)
    (hnodes : allCmdsL niq nodes = true) (hst : StOk niq st) (hfs : FSOk niq ctx.fs)
    (h : exec d nodes ctx st = .ok o) : ∀ l ∈ o.out, firstWord l ≠ "REM" := by
  intro l hl
  have := (exec_hereditary hspec_noRem d nodes ctx st hnodes hst hfs hoff).outs o h l hl
  simpa [notRem] using this

open Duckling.Spec in
/-- **Flipper commands off ⇒ no Flipper-only command line** -/
theorem C15_flipper_off_no_flipper_line (d : Nat) (nodes : List Node) (ctx : Ctx) (st : St) (o : Out)
    (hoff : ctx.opts.flipper = false)
    (hnodes : allCmdsL niq nodes = true) (hst : StOk niq st) (hfs : FSOk niq ctx.fs)
    (h : exec d nodes ctx st = .ok o) : ∀ l ∈ o.out, firstWord l ∉ flipperWords := by
  intro l hl
  have := (exec_hereditary hspec_noFlipper d nodes ctx st hnodes hst hfs hoff).outs o h l hl
  simpa [notFlipper] using this

theorem compile_out_of_exec (opts : Opts) (fs : FS) (file : Option Path) (src : Source)
    (out : List Str) (warns : List Warn) (prints : List Print) (vars : List (Str × Val))
    (h : compile opts fs file src = .ok out warns prints vars) :
    ∃ nodes r, prepare src = .ok nodes ∧
      exec (opts.stackLimit - 1) nodes { opts := opts.flags, fs := fs, frames := [], file := file } { env := initEnv } = .ok r ∧ r.out = out := by
  unfold compile at h
  split at h
  · cases h
  · cases h
  · rename_i nodes hn
    simp only [] at h
    split at h
    · rename_i r hr
      simp only [Result.ok.injEq] at h
      exact ⟨nodes, r, hn, hr, h.1⟩
    · cases h
    · cases h
    · cases h

theorem initEnv_stOk (q : Str → Bool → Bool) : StOk q { env := initEnv } := by
  intro c hc
  unfold initEnv at hc
  split at hc <;> simp [St.codes] at hc

open Duckling.Spec in
theorem C15_compile_comments_off (opts : Opts) (fs : FS) (file : Option Path) (src : Source)
    (out : List Str) (warns : List Warn) (prints : List Print) (vars : List (Str × Val))
    (hoff : opts.comments = false)
    (hsrc : ∀ nodes, prepare src = .ok nodes → allCmdsL niq nodes = true) (hfs : FSOk niq fs)
    (h : compile opts fs file src = .ok out warns prints vars) : ∀ l ∈ out, firstWord l ≠ "REM" := by
  obtain ⟨nodes, r, hn, hr, rfl⟩ := compile_out_of_exec opts fs file src out warns prints vars h
  exact C15_comments_off_no_rem _ nodes _ _ r hoff (hsrc nodes hn) (initEnv_stOk _) hfs hr

open Duckling.Spec in
theorem C15_compile_flipper_off (opts : Opts) (fs : FS) (file : Option Path) (src : Source)
    (out : List Str) (warns : List Warn) (prints : List Print) (vars : List (Str × Val))
    (hoff : opts.flipper = false)
    (hsrc : ∀ nodes, prepare src = .ok nodes → allCmdsL niq nodes = true) (hfs : FSOk niq fs)
    (h : compile opts fs file src = .ok out warns prints vars) : ∀ l ∈ out, firstWord l ∉ flipperWords := by
  obtain ⟨nodes, r, hn, hr, rfl⟩ := compile_out_of_exec opts fs file src out warns prints vars h
  exact C15_flipper_off_no_flipper_line _ nodes _ _ r hoff (hsrc nodes hn) (initEnv_stOk _) hfs hr

/-- the warnings that are not "unknown command" warnings -/
def keptWarns (ws : List Warn) : List Warn := ws.filter notNE

/-- **suppression only removes the unknown-command warnings** — whole compilations, any nesting, calls and imports -/
theorem C15_suppress_whole (opts : Opts) (fs : FS) (file : Option Path) (src : Source)
    (hsrc : ∀ nodes, prepare src = .ok nodes → allCmdsL nbq nodes = true) :
    compile { opts with suppress := true } fs file src =
      match compile opts fs file src with
      | .ok out warns prints vars => .ok out (keptWarns warns) prints vars
      | r => r := by
  have h := compile_sim simSpec_suppress rfl opts { opts with suppress := true } rfl rfl fs file src hsrc (fsOk_nonBlank fs)
  rcases h with ⟨_, _, he⟩ | h
  · exact he.elim
  · rw [h]
    cases compile opts fs file src <;> simp only [Result.mapWO, simSuppress_out] <;> rfl

theorem C15_suppress_text (opts : Opts) (fs : FS) (file : Option Path) (t : Str) :
    compile { opts with suppress := true } fs file (.text t) =
      match compile opts fs file (.text t) with
      | .ok out warns prints vars => .ok out (keptWarns warns) prints vars
      | r => r :=
  C15_suppress_whole opts fs file (.text t) (prepare_text_nbq t)

/-- **comments off = comments on with the REM lines removed** — whole compilations of programs without IGNORE blocks -/
theorem C15_comments_whole (opts : Opts) (fs : FS) (file : Option Path) (src : Source)
    (hsrc : ∀ nodes, prepare src = .ok nodes → allCmdsL niq nodes = true) (hfs : FSOk niq fs) :
    compile { opts with comments := false } fs file src =
      match compile opts fs file src with
      | .ok out warns prints vars => .ok (out.filter notRem) warns prints vars
      | r => r := by
  have h := compile_sim simSpec_comments rfl opts { opts with comments := false } rfl rfl fs file src hsrc hfs
  rcases h with ⟨_, _, he⟩ | h
  · exact he.elim
  · rw [h]
    cases compile opts fs file src <;> simp [Result.mapWO, SimP.out, simComments]

/-- **the Flipper option only ever adds InvalidCommand** — whole compilations -/
theorem C15_flipper_whole (opts : Opts) (fs : FS) (file : Option Path) (src : Source)
    (hsrc : ∀ nodes, prepare src = .ok nodes → allCmdsL nbq nodes = true) :
    (∃ e, compile opts fs file src = .err e ∧ e.k = .invalidCommand) ∨
      compile { opts with flipper := true } fs file src = compile opts fs file src := by
  have h := compile_sim simSpec_flipper rfl opts { opts with flipper := true } rfl rfl fs file src hsrc (fsOk_nonBlank fs)
  rcases h with h | h
  · exact Or.inl h
  · right
    rw [h]
    cases compile opts fs file src <;> simp only [Result.mapWO, simFlipper_out] <;> rfl

theorem C15_flipper_text (opts : Opts) (fs : FS) (file : Option Path) (t : Str) :
    (∃ e, compile opts fs file (.text t) = .err e ∧ e.k = .invalidCommand) ∨
      compile { opts with flipper := true } fs file (.text t) = compile opts fs file (.text t) :=
  C15_flipper_whole opts fs file (.text t) (prepare_text_nbq t)

/-- **entry forms**: compiling a text given as one string is compiling the list of its lines (cut at the line feeds, nothing else) — with
    the same options, file system and file — so whatever holds of one input form holds of the other -/
theorem C15_text_is_lines (opts : Opts) (fs : FS) (file : Option Path) (t : Str) :
    compile opts fs file (.text t) = compile opts fs file (.lines (splitChar '\n' t)) := by
  unfold compile prepare
  rfl

end Duckling.Props.C15
