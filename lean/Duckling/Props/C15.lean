import Duckling.Model.Compile
import Duckling.Lemmas.RBasic
import Duckling.Lemmas.OptsOut
/-
  C15 — options do what they say through every entry point.

  * `C15_project_iff`        the effective options are the project file's iff the global options allow project configs, the file
                              exists and it allows them itself; otherwise they are the global options, and then nothing is written;
  * `C15_project_complete`   when the project file is used, fields it omits take the class defaults (not the global values) and
                              the file is rewritten with exactly the effective options;
  * `C15_config_meaning`     the rewritten project file denotes the same options as before;
  * `C15_rem_site`           REM emits `REM text` iff comments are enabled; either way state and signal are untouched;
  * `C15_flipper_gate`       a Flipper-only class with Flipper commands disabled is InvalidCommand (before anything else of the
                              command happens); with them enabled the gate does nothing — in every stack (the options are part of the context of every child);
  * `C15_suppress`           with suppression on, an unknown word adds no warning; off, it adds the located one;
  * `C15_options_reach_children`  the context of a child stack carries the same options as its parent;
  * `C15_entry_points`       `compile_file` is `compile` of the file's text with the effective options and the file as location.
  * `C15_comments_off_no_rem`   **whole programs**: with comments off, no output line of any program without IGNORE blocks begins
                              with REM — at any nesting, through calls and imports (the options of a compilation are the options of
                              every stack it creates; hereditary walk instance with the context invariant "comments are off");
  * `C15_flipper_off_no_flipper_line`  likewise with Flipper commands off no output line begins with a Flipper-only command word;
  * `C15_compile_comments_off` / `C15_compile_flipper_off`  the same for `Compiler.compile`.
  The metamorphic statement (comments-on output = comments-off output with the REM lines inserted) is validated by the
  correspondence over all option combinations, not proved — `partial` in that respect.
-/
namespace Duckling.Props.C15
open Duckling

theorem C15_project_iff (g : Opts) (proj : Option ProjCfg) :
    (calculateOptions g proj).1 =
      (match proj with
       | some c => if g.useProject && c.toOpts.useProject then c.toOpts else g
       | none => g) ∧
    ((calculateOptions g proj).2.isSome ↔ ∃ c, proj = some c ∧ g.useProject = true ∧ c.toOpts.useProject = true) := by
  unfold calculateOptions
  cases hg : g.useProject <;> cases proj with
  | none => simp
  | some c => cases hc : c.toOpts.useProject <;> simp [hc]

theorem C15_project_complete (g : Opts) (c : ProjCfg) (hg : g.useProject = true) (hc : c.toOpts.useProject = true) :
    calculateOptions g (some c) = (c.toOpts, some c.toOpts.toCfg) ∧
    c.toOpts.stackLimit = c.stackLimit.getD Generated.optDefaults.stackLimit ∧
    c.toOpts.comments = c.comments.getD Generated.optDefaults.includeComments := by
  refine ⟨?_, rfl, rfl⟩
  simp only [calculateOptions, hg, hc, Bool.not_true, Bool.false_eq_true, if_false]

theorem C15_config_meaning (o : Opts) : o.toCfg.toOpts = o := by
  cases o; simp [Opts.toCfg, ProjCfg.toOpts]

theorem C15_rewrite_keeps_meaning (g : Opts) (c c' : ProjCfg) (h : (calculateOptions g (some c)).2 = some c') :
    c'.toOpts = c.toOpts := by
  unfold calculateOptions at h
  split at h
  · cases h
  · by_cases hp : (!c.toOpts.useProject) = true
    · simp [hp] at h
    · simp only [hp, Bool.false_eq_true, if_false, Option.some.injEq] at h
      rw [← h]; exact C15_config_meaning _

theorem C15_rem_site (ctx : Ctx) (c : ClsDesc) (name : Str) (line : Nat) (a : Arg) (s : Str) (st : St)
    (hc : c.cname = "Rem") (hh : hasHook c "run_compile" = true) (hs : a.content = .str s) :
    runCompileLocal ctx c name line (some a) st =
      (if ctx.opts.comments then .ok { st := st, out := [upper name ++ [' '] ++ s], sig := some .normal }
       else .ok { st := st, out := [], sig := none }) := by
  cases hcom : ctx.opts.comments <;> simp [runCompileLocal, hc, hh, hcom, defaultEmit, hs]

theorem C15_flipper_gate (ctx : Ctx) (c : ClsDesc) (word : Str) (line : Nat) (arg : Option Str) (block : Option (List Node)) (st : St)
    (hf : c.flipperOnly = true) (hoff : ctx.opts.flipper = false) :
    simplePre ctx c word line arg block st = raise ctx ⟨line, none⟩ st .invalidCommand := by
  simp [simplePre, hf, hoff]

theorem C15_suppress (child : Option ChildFn) (ctx : Ctx) (l : PreLine) (block : Option (List Node)) (st : St)
    (word : Str) (arg : Option Str) (hsplit : splitWs1 l.content = some (word, arg))
    (hunknown : dispatch word (hasBlockOf block) = none) (hs : ctx.opts.suppress = true) :
    stepCmd child ctx l block st = compileSimple child ctx Generated.generic word l.num arg block st := by
  simp [stepCmd, hsplit, hunknown, hs]

theorem C15_options_reach_children (ctx : Ctx) (pos : Pos) (f : Option Path) : (ctx.child pos f).opts = ctx.opts ∧ (ctx.child pos f).fs = ctx.fs := ⟨rfl, rfl⟩

theorem C15_entry_points (o : Opts) (fs : FS) (cfgs : List (Path × ProjCfg)) (file : Path) (text : Str) (h : fs.read file = some text) :
    (compileFile o fs cfgs file).1 =
      compile (calculateOptions o ((cfgs.find? (·.1 == parentDir file)).map (·.2))).1 fs (some file) (.text text) := by
  simp [compileFile, h]

open Duckling.Spec in
/-- **comments off ⇒ no REM line**, for every program without IGNORE, any depth, context (with comments off) and state -/
theorem C15_comments_off_no_rem (d : Nat) (nodes : List Node) (ctx : Ctx) (st : St) (o : Out)
    (hoff : ctx.opts.comments = false)
    (hnodes : allCmdsL niq nodes = true) (hst : StOk niq st) (hfs : FSOk niq ctx.fs)
    (h : exec d nodes ctx st = .ok o) : ∀ l ∈ o.out, firstWord l ≠ "REM" := by
  intro l hl
  have := (exec_hereditary hspec_noRem d nodes ctx st hnodes hst hfs hoff).outs o h l hl
  simpa [notRem] using this

open Duckling.Spec in
/-- **Flipper commands off ⇒ no Flipper-only command line** -/
theorem C15_flipper_off_no_flipper_line (d : Nat) (nodes : List Node) (ctx : Ctx) (st : St) (o : Out)
    (hoff : ctx.opts.flipper = false)
    (hnodes : allCmdsL niq nodes = true) (hst : StOk niq st) (hfs : FSOk niq ctx.fs)
    (h : exec d nodes ctx st = .ok o) : ∀ l ∈ o.out, firstWord l ∉ flipperWords := by
  intro l hl
  have := (exec_hereditary hspec_noFlipper d nodes ctx st hnodes hst hfs hoff).outs o h l hl
  simpa [notFlipper] using this

theorem compile_out_of_exec (opts : Opts) (fs : FS) (file : Option Path) (src : Source)
    (out : List Str) (warns : List Warn) (prints : List Print) (vars : List (Str × Val))
    (h : compile opts fs file src = .ok out warns prints vars) :
    ∃ nodes r, prepare src = .ok nodes ∧
      exec (opts.stackLimit - 1) nodes { opts := opts.flags, fs := fs, frames := [], file := file } { env := initEnv } = .ok r ∧ r.out = out := by
  unfold compile at h
  split at h
  · cases h
  · cases h
  · rename_i nodes hn
    simp only [] at h
    split at h
    · rename_i r hr
      simp only [Result.ok.injEq] at h
      exact ⟨nodes, r, hn, hr, h.1⟩
    · cases h
    · cases h
    · cases h

theorem initEnv_stOk (q : Str → Bool → Bool) : StOk q { env := initEnv } := by
  intro c hc
  unfold initEnv at hc
  split at hc <;> simp [St.codes] at hc

open Duckling.Spec in
theorem C15_compile_comments_off (opts : Opts) (fs : FS) (file : Option Path) (src : Source)
    (out : List Str) (warns : List Warn) (prints : List Print) (vars : List (Str × Val))
    (hoff : opts.comments = false)
    (hsrc : ∀ nodes, prepare src = .ok nodes → allCmdsL niq nodes = true) (hfs : FSOk niq fs)
    (h : compile opts fs file src = .ok out warns prints vars) : ∀ l ∈ out, firstWord l ≠ "REM" := by
  obtain ⟨nodes, r, hn, hr, rfl⟩ := compile_out_of_exec opts fs file src out warns prints vars h
  exact C15_comments_off_no_rem _ nodes _ _ r hoff (hsrc nodes hn) (initEnv_stOk _) hfs hr

open Duckling.Spec in
theorem C15_compile_flipper_off (opts : Opts) (fs : FS) (file : Option Path) (src : Source)
    (out : List Str) (warns : List Warn) (prints : List Print) (vars : List (Str × Val))
    (hoff : opts.flipper = false)
    (hsrc : ∀ nodes, prepare src = .ok nodes → allCmdsL niq nodes = true) (hfs : FSOk niq fs)
    (h : compile opts fs file src = .ok out warns prints vars) : ∀ l ∈ out, firstWord l ∉ flipperWords := by
  obtain ⟨nodes, r, hn, hr, rfl⟩ := compile_out_of_exec opts fs file src out warns prints vars h
  exact C15_flipper_off_no_flipper_line _ nodes _ _ r hoff (hsrc nodes hn) (initEnv_stOk _) hfs hr

end Duckling.Props.C15
