import Duckling.Model.Compile
import Duckling.Lemmas.RBasic
import Duckling.Props.C11
/-
  C16 — unknown commands and IGNORE blocks pass through.

  * `C16_generic_is_plain`       the command class used for unknown words, regenerated from the source, takes an optional
                                  argument, strips it, does not evaluate it, is not Flipper-only and has no hooks;
  * `C16_unknown_not_rejected`   a word no palette class claims is compiled as that plain simple command after a warning
                                  located at its line (unless warnings are suppressed) — there is no "unknown command" error path;
  * `C16_plain_inline`           `WORD arg` emits exactly `UPPER(WORD) arg-trimmed`, changes nothing else and yields no signal;
  * `C16_plain_bare`             `WORD` alone emits `UPPER(WORD)`;
  * `C16_plain_dollar`           `$WORD expr` emits `UPPER(WORD)` followed by the printed value of `expr`;
  * `C16_block_keyword_without_block`  IF/ELIF/ELSE/WHILE/FUNC/IGNORE written without a block are claimed by no class;
  * `C16_known_no_warning`       a word that a palette class claims produces no unknown-command warning at dispatch;
  * `C16_ignore_verbatim`        IGNORE emits the lines of its block verbatim (content after the block's own indentation),
                                  and a nested block inside it is a compile error.
-/
namespace Duckling.Props.C16
open Duckling

theorem C16_generic_is_plain :
    Generated.generic.argReq = .allowed ∧ Generated.generic.strip = true ∧ Generated.generic.tokenize = false ∧
    Generated.generic.argType = .str ∧ Generated.generic.flipperOnly = false ∧ Generated.generic.hooks = [] ∧
    Generated.generic.cname = "SimpleCommand" := by decide

theorem C16_unknown_not_rejected (child : Option ChildFn) (ctx : Ctx) (l : PreLine) (block : Option (List Node)) (st : St)
    (word : Str) (arg : Option Str) (hsplit : splitWs1 l.content = some (word, arg))
    (hunknown : dispatch word (hasBlockOf block) = none) :
    stepCmd child ctx l block st =
      compileSimple child ctx Generated.generic word l.num arg block
        (if ctx.opts.suppress then st else addWarn st ⟨.notExist l.num, some (ctx.frames ++ [⟨ctx.file, l.num, none⟩])⟩) := by
  simp [stepCmd, hsplit, hunknown, Ctx.trace]

/-- `WORD arg` with the plain class -/
theorem C16_plain_inline (child : Option ChildFn) (ctx : Ctx) (word a : Str) (line : Nat) (st : St)
    (hd : startsWith ['$'] (upper word) = false) (ha : a.isEmpty = false) :
    compileSimple child ctx Generated.generic word line (some a) none st =
      .ok { st := st, out := [upper word ++ [' '] ++ strip a], sig := .normal } := by
  have hg := C16_generic_is_plain
  obtain ⟨h1, h2, h3, h4, h5, h6, h7⟩ := hg
  simp [compileSimple, simplePre, prepareArgs, checkArgs, itemsOf, nameOf, h1, h2, h3, h4, h5, hd, listifyArgs, listifyArgs.go, ha, Arg.str, verifyTypes, typeOk,
    isListVal, verifyArgsHook, hasHook, h6, verifyEach, verifyArgHook, formatArg, multiComp, runCompile, h7, runCompileLocal,
    defaultEmit]

theorem C16_plain_bare (child : Option ChildFn) (ctx : Ctx) (word : Str) (line : Nat) (st : St)
    (hd : startsWith ['$'] (upper word) = false) :
    compileSimple child ctx Generated.generic word line none none st =
      .ok { st := st, out := [upper word], sig := .normal } := by
  obtain ⟨h1, h2, h3, h4, h5, h6, h7⟩ := C16_generic_is_plain
  simp [compileSimple, simplePre, prepareArgs, checkArgs, itemsOf, nameOf, h1, h2, h3, h4, h5, hd, listifyArgs, verifyTypes, verifyArgsHook, hasHook, h6, verifyEach,
    multiComp, runCompile, h7, runCompileLocal, defaultEmit]

theorem C16_plain_dollar (child : Option ChildFn) (ctx : Ctx) (word a : Str) (line : Nat) (st : St) (v : Val) (s : Str)
    (hd : startsWith ['$'] (upper word) = true) (ha : a.isEmpty = false)
    (hv : tokenize st.env.allVars (strip a) = .ok v) (hs : v.pyStr = .ok s) :
    compileSimple child ctx Generated.generic word line (some a) none st =
      .ok { st := st, out := [upper (word.drop 1) ++ [' '] ++ s], sig := .normal } := by
  obtain ⟨h1, h2, h3, h4, h5, h6, h7⟩ := C16_generic_is_plain
  simp [compileSimple, simplePre, prepareArgs, checkArgs, itemsOf, nameOf, h1, h2, h3, h4, h5, hd, listifyArgs, listifyArgs.go, ha, Arg.str, evaluateArgs, evalIn, liftO,
    hv, stringifyArgs, hs, verifyTypes, typeOk,
    isListVal, verifyArgsHook, hasHook, h6, verifyEach, verifyArgHook, formatArg, multiComp, runCompile, h7, runCompileLocal,
    defaultEmit]

/-- block commands that require a block do not claim a line without one -/
theorem C16_block_keyword_without_block (c : ClsDesc) (word : Str) (hb : c.isBlock = true) (hr : c.blockRequired = true) :
    isThisCommand c word false = false := by
  simp [isThisCommand, hb, hr]

theorem C16_block_keywords_documented :
    (Generated.palette.filter (fun c => c.isBlock && c.blockRequired)).flatMap (·.names)
      = ["FUNC", "FUNCTION", "IF", "ELIF", "ELSE", "IGNORE", "WHILE"] := by decide

theorem C16_known_no_warning (child : Option ChildFn) (ctx : Ctx) (l : PreLine) (block : Option (List Node)) (st : St)
    (word : Str) (arg : Option Str) (c : ClsDesc) (hsplit : splitWs1 l.content = some (word, arg))
    (hknown : dispatch word (hasBlockOf block) = some c) :
    stepCmd child ctx l block st =
      (if c.isBlock then compileBlock child ctx c word l.num arg (block.getD []) (hasBlockOf block) st
       else compileSimple child ctx c word l.num arg block st) := by
  simp [stepCmd, hsplit, hknown]

theorem C16_ignore_verbatim (ls : List PreLine) : rawLines (ls.map Node.line) = some (ls.map (·.content)) := by
  induction ls with
  | nil => rfl
  | cons l rest ih => simp [rawLines, ih]

theorem C16_ignore_nested_rejected (pre : List PreLine) (b : List Node) (post : List Node) :
    rawLines (pre.map Node.line ++ Node.block b :: post) = none := by
  induction pre with
  | nil => rfl
  | cons l rest ih => simp [rawLines, ih]

/-- **IGNORE with a triple-quoted body**: the group between the two quote lines — parsed as the indentation parser parses it, each line
    with the text it has after one indent unit per enclosing level was removed, so with its indentation relative to the quotes — is
    emitted line for line, unchecked and unchanged -/
theorem C16_ignore_quoted_body (ctx : Ctx) (pos : Pos) (st : St) (f : Nat) (tab : Option Str) (q q' : PreLine) (ls : List PreLine) (b : List Node)
    (hq : startsWith tripleQuote q.content = true) (hq' : startsWith tripleQuote q'.content = true) (hnum : q.num ≠ 0)
    (hls : ∀ l ∈ ls, isBlank l.content = false ∧ startsWith tripleQuote l.content = false)
    (hb : parseFuel (f + 1) (q :: (ls ++ [q'])) tab = .ok b) :
    ignorePre ctx pos b st = .ok (.done { st := st, out := ls.map (·.content) }) := by
  rw [Duckling.Props.C11.C11_verbatim_group f tab q q' ls hq hq' hnum hls] at hb
  cases hb
  simp [ignorePre, C16_ignore_verbatim]

end Duckling.Props.C16
