import Duckling.Model.Process
/-
  C17 — compilations are independent of one another.

  * `C17_no_shared_writes`   the inventory of writes to process-level state, re-extracted from the source on every run,
                              contains nothing beyond the reviewed benign list (per-instance dataclass fields, the CLI's
                              configuration cache) — introducing `cls.tokenize_args = True`, a mutated module-level table,
                              a cached environment, a module-level memo, … changes the inventory and breaks this theorem;
  * `C17_frame`              a compilation leaves the process state as it found it;
  * `C17_history`            after any history of compilations (successful or failed, any options, any sources) the process
                              state is the initial one, and the result of a request is the result of that request in a fresh
                              process — the same whatever came before, and the same twice;
  * `C17_result_is_function` the result depends on the request only.
  The inventory is syntactic (aliasing and reflection escape it); it is backed on every run by the dynamic
  history-vs-fresh-process comparison of the correspondence (soundness of the inventory is in the trusted base).
-/
namespace Duckling.Props.C17
open Duckling

theorem C17_no_shared_writes : compileWrites = [] := by decide

theorem C17_frame (σ : ProcState) (r : Request) : (compileP σ r).1 = σ := by
  simp [compileP, C17_no_shared_writes]

theorem C17_result_is_function (σ σ' : ProcState) (r : Request) : (compileP σ r).2 = (compileP σ' r).2 := rfl

theorem C17_history (σ : ProcState) (h : List Request) (r : Request) :
    runHistory σ h = σ ∧ (compileP (runHistory σ h) r).2 = (compileP σ r).2 ∧
    (compileP (compileP σ r).1 r).2 = (compileP σ r).2 := by
  refine ⟨?_, rfl, rfl⟩
  induction h generalizing σ with
  | nil => rfl
  | cons x rest ih => simp only [runHistory, C17_frame]; exact ih σ

end Duckling.Props.C17
