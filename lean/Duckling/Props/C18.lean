import Duckling.Model.Compile
import Duckling.Lemmas.RBasic
import Duckling.Lemmas.Prints
/-
  C18 — PRINT is a side channel: ordered, located, invisible in the output.

  * `C18_print_site`        a PRINT argument appends exactly one entry — its text (already evaluated for `$PRINT`), the line
                             number of that argument and the file of the running stack — to the print log, emits no output
                             line, and changes nothing else (environment, warnings);
  * `C18_pass_site`         PASS emits nothing and changes nothing: replacing a PRINT by PASS changes only the print log;
  * `C18_bare_print`        PRINT without an argument does nothing at all;
  * `C18_log_is_shared`     leaving a block (on any exit path, in either exit mode) hands the child's print log back unchanged,
                             and entering one hands the parent's log down: there is one log per compilation;
  * `C18_error_carries_log` every located compile error raised by the interpreter carries the print log as it stood when it was raised
                             (prints executed before the failure are available);
  * `C18_startenv_keeps_prints`  STARTENV discards the output lines of the file but not its prints.
  * `C18_log_only_grows`    (invariant over the whole interpreter, any program, depth and state) the log a run ends with
                             extends the log it started with — nothing is ever lost, reordered or rewritten — and the log
                             carried by a located error extends it too: the prints executed before a failure are still there;
  * `C18_compile_prints_before_failure`  for a whole compilation that fails with a located error the error carries a log.
  The whole-program statements (insert PRINT anywhere ⇒ same output; each executed PRINT exactly once) are
  validated by the correspondence and the reference interpreter, not proved — `partial` in that respect.
-/
namespace Duckling.Props.C18
open Duckling

theorem C18_print_site (ctx : Ctx) (c : ClsDesc) (name : Str) (line : Nat) (a : Arg) (st : St)
    (hc : c.cname = "Print") (hh : hasHook c "run_compile" = true) :
    runCompileLocal ctx c name line (some a) st =
      .ok { st := { st with prints := st.prints ++ [⟨a.str, a.lineNum, ctx.file⟩] }, out := [], sig := some .normal } := by
  simp [runCompileLocal, hc, hh]

theorem C18_bare_print (ctx : Ctx) (c : ClsDesc) (name : Str) (line : Nat) (st : St)
    (hc : c.cname = "Print") (hh : hasHook c "run_compile" = true) :
    runCompileLocal ctx c name line none st = .ok { st := st, out := [], sig := none } := by
  simp [runCompileLocal, hc, hh]

theorem C18_pass_site (ctx : Ctx) (c : ClsDesc) (name : Str) (line : Nat) (a : Option Arg) (st : St)
    (hc : c.cname = "Pass") (hh : hasHook c "run_compile" = true) :
    runCompileLocal ctx c name line a st = .ok { st := st, out := [], sig := none } := by
  simp [runCompileLocal, hc, hh]

/-- PRINT vs PASS: same environment, same warnings, same (empty) output; only the log differs -/
theorem C18_print_vs_pass (ctx : Ctx) (cp cq : ClsDesc) (name : Str) (line : Nat) (a : Arg) (st : St)
    (hp : cp.cname = "Print") (hq : cq.cname = "Pass") (hhp : hasHook cp "run_compile" = true) (hhq : hasHook cq "run_compile" = true) :
    ∃ rp rq, runCompileLocal ctx cp name line (some a) st = .ok rp ∧ runCompileLocal ctx cq name line none st = .ok rq ∧
      rp.out = rq.out ∧ rp.st.env = rq.st.env ∧ rp.st.warns = rq.st.warns ∧ rq.st.prints = st.prints := by
  refine ⟨_, _, C18_print_site ctx cp name line a st hp hhp, C18_pass_site ctx cq name line none st hq hhq, rfl, rfl, rfl, rfl⟩

theorem C18_log_is_shared (parallel : Bool) (parent child : St) :
    (leave parallel parent child).prints = child.prints ∧ (enterSt parent).prints = parent.prints := ⟨rfl, rfl⟩

theorem C18_error_carries_log (ctx : Ctx) (pos : Pos) (st : St) (k : EK) :
    (raise ctx pos st k : Res) = .err { k := k, trace := some (ctx.frames ++ [⟨ctx.file, pos.line, pos.line2⟩]), prints := some st.prints } := rfl

theorem C18_overflow_carries_log (ctx : Ctx) (pos : Pos) (st : St) :
    (overflowErr ctx pos st : Res) = .err { k := .stackOverflow, trace := some (ctx.frames ++ [⟨ctx.file, pos.line, pos.line2⟩]), prints := some st.prints } := rfl

theorem C18_startenv_keeps_prints (name : Str) (st : St) (r : Out) (rc : RC) (h : startPost name st r = .ok rc) :
    rc.st.prints = r.st.prints ∧ (upper name = "STARTENV".toList → rc.out = []) := by
  unfold startPost at h
  simp only at h
  split at h
  · rename_i he
    cases h
    refine ⟨?_, fun _ => rfl⟩
    simp only [leave, startBaseWarn]; split <;> simp [addWarn] <;> split <;> rfl
  · rename_i he
    cases h
    refine ⟨?_, fun hn => by simp [hn] at he⟩
    simp only [leave, startBaseWarn]; split <;> simp [addWarn] <;> split <;> rfl

theorem C18_log_only_grows (d : Nat) (nodes : List Node) (ctx : Ctx) (st : St) :
    (∀ r, exec d nodes ctx st = .ok r → st.prints <+: r.st.prints) ∧
    (∀ e ps, exec d nodes ctx st = .err e → e.prints = some ps → st.prints <+: ps) := by
  have h := exec_prints_grow d nodes ctx st
  exact ⟨fun r hr => h.ok r r.st.prints hr rfl, fun e ps he hp => h.err e ps he hp⟩

theorem C18_compile_prints_before_failure (o : Opts) (fs : FS) (file : Option Path) (src : Source) (nodes : List Node) (e : ErrInfo)
    (hp : prepare src = .ok nodes) (h : compile o fs file src = .err e) (ht : e.trace.isSome) :
    ∃ d ctx st, exec d nodes ctx st = .err e ∧ st.prints = [] := by
  unfold compile at h
  simp only [hp] at h
  split at h
  · cases h
  · rename_i e' he; cases h; exact ⟨_, _, _, he, rfl⟩
  · cases h
  · cases h

end Duckling.Props.C18
