import Duckling.Model.Compile
import Duckling.Lemmas.RBasic
import Duckling.Lemmas.Prints
import Duckling.Lemmas.SimPrint
/-
  C18 — PRINT is a side channel: ordered, located, invisible in the output.

  * `C18_print_site`        a PRINT argument appends exactly one entry — its text (already evaluated for `$PRINT`), the line
                             number of that argument and the file of the running stack — to the print log, emits no output
                             line, and changes nothing else (environment, warnings);
  * `C18_pass_site`         PASS emits nothing and changes nothing: replacing a PRINT by PASS changes only the print log;
  * `C18_bare_print`        PRINT without an argument does nothing at all;
  * `C18_log_is_shared`     leaving a block (on any exit path, in either exit mode) hands the child's print log back unchanged,
                             and entering one hands the parent's log down: there is one log per compilation;
  * `C18_error_carries_log` every located compile error raised by the interpreter carries the print log as it stood when it was raised
                             (prints executed before the failure are available);
  * `C18_startenv_keeps_prints`  STARTENV discards the output lines of the file but not its prints.
  * `C18_log_only_grows`    (invariant over the whole interpreter, any program, depth and state) the log a run ends with
                             extends the log it started with — nothing is ever lost, reordered or rewritten — and the log
                             carried by a located error extends it too: the prints executed before a failure are still there;
  * `C18_compile_prints_before_failure`  for a whole compilation that fails with a located error the error carries a log.
  * `C18_print_invisible`   **whole compilations**: rewrite EVERY plain PRINT line (`PRINT text` in any letter case — not `$`-evaluated, owning
                             no group) into PASS, in the program, in every block at every depth, in the bodies of functions and in the
                             files on disk: the compilation gives exactly the same output lines, warnings, final variables — or the same
                             error with the same trace — and an empty print log.  So a PRINT contributes nothing but its log entry, wherever
                             it stands (loops, branches, functions, imported files), and two programs that differ only in the texts of
                             their plain PRINT lines compile to the same output (`C18_print_text_irrelevant`).  An instance of the
                             simulation walk, second form (Lemmas/Sim2, Lemmas/SimPrint): two runs of different code in lock-step.
                             Hypothesis: no line of the code is a `$PRINT` (its expression may fail to evaluate) or a PRINT owning a group.
  * `C18_rewrite_example`   the rewriting on a concrete nested program, checked by the kernel (non-vacuity of the hypotheses).
  Line numbers are unchanged by the rewriting, which is why traces agree; that INSERTING a line only renumbers is C03's
  `C03_numbers` / the correspondence's business.  "Each executed PRINT exactly once, in order" for whole programs is validated by the
  correspondence and the reference interpreter, not proved — `partial` in that respect.
-/
namespace Duckling.Props.C18
open Duckling

theorem C18_print_site (ctx : Ctx) (c : ClsDesc) (name : Str) (line : Nat) (a : Arg) (st : St)
    (hc : c.cname = "Print") (hh : hasHook c "run_compile" = true) :
    runCompileLocal ctx c name line (some a) st =
      .ok { st := { st with prints := st.prints ++ [⟨a.str, a.lineNum, ctx.file⟩] }, out := [], sig := some .normal } := by
  simp [runCompileLocal, hc, hh]

theorem C18_bare_print (ctx : Ctx) (c : ClsDesc) (name : Str) (line : Nat) (st : St)
    (hc : c.cname = "Print") (hh : hasHook c "run_compile" = true) :
    runCompileLocal ctx c name line none st = .ok { st := st, out := [], sig := none } := by
  simp [runCompileLocal, hc, hh]

theorem C18_pass_site (ctx : Ctx) (c : ClsDesc) (name : Str) (line : Nat) (a : Option Arg) (st : St)
    (hc : c.cname = "Pass") (hh : hasHook c "run_compile" = true) :
    runCompileLocal ctx c name line a st = .ok { st := st, out := [], sig := none } := by
  simp [runCompileLocal, hc, hh]

/-- PRINT vs PASS: same environment, same warnings, same (empty) output; only the log differs -/
theorem C18_print_vs_pass (ctx : Ctx) (cp cq : ClsDesc) (name : Str) (line : Nat) (a : Arg) (st : St)
    (hp : cp.cname = "Print") (hq : cq.cname = "Pass") (hhp : hasHook cp "run_compile" = true) (hhq : hasHook cq "run_compile" = true) :
    ∃ rp rq, runCompileLocal ctx cp name line (some a) st = .ok rp ∧ runCompileLocal ctx cq name line none st = .ok rq ∧
      rp.out = rq.out ∧ rp.st.env = rq.st.env ∧ rp.st.warns = rq.st.warns ∧ rq.st.prints = st.prints := by
  refine ⟨_, _, C18_print_site ctx cp name line a st hp hhp, C18_pass_site ctx cq name line none st hq hhq, rfl, rfl, rfl, rfl⟩

theorem C18_log_is_shared (parallel : Bool) (parent child : St) :
    (leave parallel parent child).prints = child.prints ∧ (enterSt parent).prints = parent.prints := ⟨rfl, rfl⟩

theorem C18_error_carries_log (ctx : Ctx) (pos : Pos) (st : St) (k : EK) :
    (raise ctx pos st k : Res) = .err { k := k, trace := some (ctx.frames ++ [⟨ctx.file, pos.line, pos.line2⟩]), prints := some st.prints } := rfl

theorem C18_overflow_carries_log (ctx : Ctx) (pos : Pos) (st : St) :
    (overflowErr ctx pos st : Res) = .err { k := .stackOverflow, trace := some (ctx.frames ++ [⟨ctx.file, pos.line, pos.line2⟩]), prints := some st.prints } := rfl

theorem C18_startenv_keeps_prints (name : Str) (st : St) (r : Out) (rc : RC) (h : startPost name st r = .ok rc) :
    rc.st.prints = r.st.prints ∧ (upper name = "STARTENV".toList → rc.out = []) := by
  unfold startPost at h
  simp only at h
  split at h
  · rename_i he
    cases h
    refine ⟨?_, fun _ => rfl⟩
    simp only [leave, startBaseWarn]; split <;> simp [addWarn] <;> split <;> rfl
  · rename_i he
    cases h
    refine ⟨?_, fun hn => by simp [hn] at he⟩
    simp only [leave, startBaseWarn]; split <;> simp [addWarn] <;> split <;> rfl

theorem C18_log_only_grows (d : Nat) (nodes : List Node) (ctx : Ctx) (st : St) :
    (∀ r, exec d nodes ctx st = .ok r → st.prints <+: r.st.prints) ∧
    (∀ e ps, exec d nodes ctx st = .err e → e.prints = some ps → st.prints <+: ps) := by
  have h := exec_prints_grow d nodes ctx st
  exact ⟨fun r hr => h.ok r r.st.prints hr rfl, fun e ps he hp => h.err e ps he hp⟩

theorem C18_compile_prints_before_failure (o : Opts) (fs : FS) (file : Option Path) (src : Source) (nodes : List Node) (e : ErrInfo)
    (hp : prepare src = .ok nodes) (h : compile o fs file src = .err e) (ht : e.trace.isSome) :
    ∃ d ctx st, exec d nodes ctx st = .err e ∧ st.prints = [] := by
  unfold compile at h
  simp only [hp] at h
  split at h
  · cases h
  · rename_i e' he; cases h; exact ⟨_, _, _, he, rfl⟩
  · cases h
  · cases h

/-- **PRINT is invisible**: every plain PRINT line rewritten to PASS — same result, empty log -/
theorem C18_print_invisible (F : FS → FS) (opts : Opts) (fs : FS) (file : Option Path) (src src' : Source) (nodes : List Node)
    (hsrc : prepare src = .ok nodes) (hsrc' : prepare src' = .ok ((simPrint F).code nodes))
    (hq : allCmdsL printOk nodes = true) (hfs : FSOk printOk fs) (hF : S2.FRel (simPrint F) fs) :
    compile opts (F fs) file src' = (compile opts fs file src).dropPrints :=
  compile_print_invisible F opts fs file src src' nodes hsrc hsrc' hq hfs hF

/-- two programs with the same rewriting (they differ only in the texts of their plain PRINT lines) compile to the same
    output, warnings and variables, or to the same error -/
theorem C18_print_text_irrelevant (opts : Opts) (file : Option Path) (srcA srcB src' : Source) (nodesA nodesB : List Node)
    (hA : prepare srcA = .ok nodesA) (hB : prepare srcB = .ok nodesB)
    (hsame : (simPrint id).code nodesA = (simPrint id).code nodesB) (hsrc' : prepare src' = .ok ((simPrint id).code nodesA))
    (hqA : allCmdsL printOk nodesA = true) (hqB : allCmdsL printOk nodesB = true) :
    (compile opts [] file srcA).dropPrints = (compile opts [] file srcB).dropPrints := by
  have hF : S2.FRel (simPrint id) [] := fun _ => rfl
  have hfs : FSOk printOk [] := by intro p t n h; cases h
  rw [← C18_print_invisible id opts [] file srcA src' nodesA hA hsrc' hqA hfs hF,
      ← C18_print_invisible id opts [] file srcB src' nodesB hB (hsame ▸ hsrc') hqB hfs hF]

/-- **only PRINT writes the log**: a program (and the files it can import) in which no plain PRINT line stands at a command position —
    the rewriting leaves it as it is — compiles with an EMPTY print log: no other command, no block, no loop, no call, no import
    ever adds an entry -/
theorem C18_only_print_writes_the_log (opts : Opts) (fs : FS) (file : Option Path) (src : Source) (nodes : List Node)
    (hsrc : prepare src = .ok nodes) (hfix : (simPrint id).code nodes = nodes)
    (hq : allCmdsL printOk nodes = true) (hfs : FSOk printOk fs) (hF : S2.FRel (simPrint id) fs) :
    compile opts fs file src = (compile opts fs file src).dropPrints := by
  have := C18_print_invisible id opts fs file src src nodes hsrc (by rw [hfix]; exact hsrc) hq hfs hF
  simpa using this

/-- a concrete nested program -/
def exampleProg : List Node := [.line ⟨"PRINT hello".toList, 1⟩, .line ⟨"IF TRUE".toList, 2⟩,
  .block [.line ⟨"print x".toList, 3⟩, .line ⟨"STRING".toList, 4⟩, .block [.line ⟨"PRINT kept".toList, 5⟩]]]

/-- the rewriting on that program: PRINT lines at top level and inside an IF body become PASS, the argument group of a STRING is
    kept as it is; the hypotheses of the theorem hold of it (kernel-checked: non-vacuity) -/
theorem C18_rewrite_example :
    (simPrint id).code exampleProg = [.line ⟨"PASS".toList, 1⟩, .line ⟨"IF TRUE".toList, 2⟩,
      .block [.line ⟨"PASS".toList, 3⟩, .line ⟨"STRING".toList, 4⟩, .block [.line ⟨"PRINT kept".toList, 5⟩]]] ∧
    allCmdsL printOk exampleProg = true := by
  have c1 : S2.codeOf ⟨"IF TRUE".toList, 2⟩ true = true := by decide
  have c2 : S2.codeOf ⟨"STRING".toList, 4⟩ true = false := by decide
  have p1 : isPlainPrint ⟨"PRINT hello".toList, 1⟩ false = true := by decide
  have p2 : isPlainPrint ⟨"IF TRUE".toList, 2⟩ true = false := by decide
  have p3 : isPlainPrint ⟨"print x".toList, 3⟩ false = true := by decide
  have p4 : isPlainPrint ⟨"STRING".toList, 4⟩ true = false := by decide
  constructor
  · simp only [exampleProg, S2.SimP.code, S2.tau_line, S2.tau_block, S2.tau_nil, nextBlock, hasBlockOf, simPrint, c1, c2, p1, p2, p3, p4,
      passLine, if_true, if_false, Bool.false_eq_true, List.isEmpty_cons, Bool.not_false]
  · simp only [exampleProg, allCmdsL_line, allCmdsL_block, allCmdsL_nil, nextBlock, hasBlockOf]
    decide

end Duckling.Props.C18
