import Duckling.Model.Cli
import Duckling.Props.C15
/-
  C19 — the CLI writes its output file all-or-nothing and touches nothing else.

  About the model `cliCompile` / `cliNew` (validated against the real functions by byte-level snapshots of a
  scratch tree on every run):
  * `C19_success_writes_output`   when compilation succeeds the output path holds exactly the output lines joined by
                                   newlines and every other non-config file is what it was;
  * `C19_failure_touches_nothing` when compilation fails with a compile error no non-config file changes — the output path
                                   (absent or stale) is exactly as before — and the report carries the error class, the last ≤ 5
                                   trace entries and the captured prints;
  * `C19_sources_never_change`    reading a source path after the command gives what it gave before (unless it is the output path);
  * `C19_global_config_meaning` / `C19_project_config_meaning`          the global configuration denotes the same options after the command (an absent file is
                                   created with the defaults), and a rewritten project configuration denotes what it denoted;
  * `C19_new_creates_project`     `new` on a fresh valid name creates the default configuration and a main file; on an existing
                                   directory or an invalid name it changes nothing;
  * `C19_write_read`              the file-system model: reading what was written gives it back; other paths are untouched.
  Atomicity of `Path.write_text` against a crash of the process mid-write is OS behaviour outside the model.
-/
namespace Duckling.Props.C19
open Duckling

theorem C19_write_read (fs : FS) (p q : Path) (t : Str) :
    (fs.write p t).read p = some t ∧ (q ≠ p → (fs.write p t).read q = fs.read q) := by
  induction fs with
  | nil =>
    refine ⟨by simp [FS.write, FS.read], fun hne => ?_⟩
    have : (p == q) = false := by simpa using (Ne.symm hne)
    simp [FS.write, FS.read, this]
  | cons kv rest ih =>
    obtain ⟨k, v⟩ := kv
    by_cases hk : (k == p) = true
    · refine ⟨by simp [FS.write, FS.read, hk], fun hne => ?_⟩
      have hkp : k = p := by simpa using hk
      have h1 : (p == q) = false := by simpa using (Ne.symm hne)
      have h2 : (k == q) = false := by rw [hkp]; exact h1
      simp [FS.write, FS.read, hk, h1, h2]
    · have hk' : (k == p) = false := by simpa using hk
      refine ⟨by simp [FS.write, FS.read, hk', ih.1], fun hne => ?_⟩
      simp only [FS.write, hk', Bool.false_eq_true, if_false, FS.read]
      cases (k == q)
      · simp [ih.2 hne]
      · rfl

theorem C19_success_writes_output (fs : CliFS) (file output : Path) (sl : Option Nat) (cm : Option Bool)
    (out : List Str) (warns : List Warn) (prints : List Print) (vars : List (Str × Val))
    (h : (compileFile { (loadGlobal fs).1 with stackLimit := sl.getD (loadGlobal fs).1.stackLimit, comments := cm.getD (loadGlobal fs).1.comments }
            (loadGlobal fs).2.files (loadGlobal fs).2.projCfgs file).1 = .ok out warns prints vars) :
    (cliCompile fs file output sl cm).1.files.read output = some (joinWith ['\n'] out) ∧
    (∀ q, q ≠ output → (cliCompile fs file output sl cm).1.files.read q = fs.files.read q) ∧
    (∃ w p, (cliCompile fs file output sl cm).2 = .success w p ∧ p = prints) := by
  have hfiles : (loadGlobal fs).2.files = fs.files := by unfold loadGlobal; split <;> rfl
  unfold cliCompile
  simp only
  generalize hcf : compileFile _ _ _ _ = cf at h ⊢
  obtain ⟨res, wr⟩ := cf
  simp only at h
  subst h
  cases wr with
  | none =>
    simp only
    refine ⟨(C19_write_read _ _ output _).1, ?_, _, _, rfl, rfl⟩
    intro q hq; rw [(C19_write_read _ output q _).2 hq, hfiles]
  | some dc =>
    obtain ⟨dir, c⟩ := dc
    simp only
    refine ⟨(C19_write_read _ _ output _).1, ?_, _, _, rfl, rfl⟩
    intro q hq; rw [(C19_write_read _ output q _).2 hq, hfiles]

theorem C19_failure_touches_nothing (fs : CliFS) (file output : Path) (sl : Option Nat) (cm : Option Bool) (e : ErrInfo)
    (h : (compileFile { (loadGlobal fs).1 with stackLimit := sl.getD (loadGlobal fs).1.stackLimit, comments := cm.getD (loadGlobal fs).1.comments }
            (loadGlobal fs).2.files (loadGlobal fs).2.projCfgs file).1 = .err e) :
    (cliCompile fs file output sl cm).1.files = fs.files ∧
    (cliCompile fs file output sl cm).2 = .failure ⟨e.k, ((e.trace.getD []).reverse.take 5).reverse, e.prints.getD []⟩ := by
  have hfiles : (loadGlobal fs).2.files = fs.files := by unfold loadGlobal; split <;> rfl
  unfold cliCompile
  simp only
  generalize hcf : compileFile _ _ _ _ = cf at h ⊢
  obtain ⟨res, wr⟩ := cf
  simp only at h
  subst h
  cases wr with
  | none => exact ⟨hfiles, rfl⟩
  | some dc => exact ⟨hfiles, rfl⟩

theorem C19_sources_never_change (fs : CliFS) (file output : Path) (sl : Option Nat) (cm : Option Bool) (q : Path) (hq : q ≠ output) :
    (cliCompile fs file output sl cm).1.files.read q = fs.files.read q := by
  have hfiles : (loadGlobal fs).2.files = fs.files := by unfold loadGlobal; split <;> rfl
  unfold cliCompile
  simp only
  generalize compileFile _ _ _ _ = cf
  obtain ⟨res, wr⟩ := cf
  cases res <;> cases wr <;> simp only [hfiles] <;> first | rfl | (rw [(C19_write_read _ output q _).2 hq]) | (rw [(C19_write_read _ output q _).2 hq, hfiles])

theorem C19_global_config_meaning (fs : CliFS) (file output : Path) (sl : Option Nat) (cm : Option Bool) :
    (cliCompile fs file output sl cm).1.globalCfg = some (fs.globalCfg.getD {}) := by
  have hg : (loadGlobal fs).2.globalCfg = some (fs.globalCfg.getD {}) := by
    unfold loadGlobal
    cases h : fs.globalCfg with
    | none => rfl
    | some o => simp [h]
  unfold cliCompile
  simp only
  generalize compileFile _ _ _ _ = cf
  obtain ⟨res, wr⟩ := cf
  cases res <;> cases wr <;> exact hg

/-- a project configuration the command rewrites denotes what it denoted -/
theorem C19_project_config_meaning (g : Opts) (c c' : ProjCfg) (h : (calculateOptions g (some c)).2 = some c') :
    c'.toOpts = c.toOpts := Props.C15.C15_rewrite_keeps_meaning g c c' h

theorem C19_new_creates_project (fs : CliFS) (dir : Path) (name : Str) :
    (projNameOk name = true →
      (cliNew fs dir false name).files.read (dir ++ ["main.txt"]) = some "STRING Hello, World!".toList ∧
      (cliNew fs dir false name).projCfgs = fs.projCfgs ++ [(dir, ({} : Opts).toCfg)] ∧
      (∀ q, q ≠ dir ++ ["main.txt"] → (cliNew fs dir false name).files.read q = fs.files.read q)) ∧
    cliNew fs dir true name = fs ∧ (projNameOk name = false → cliNew fs dir false name = fs) := by
  refine ⟨fun hok => ?_, by simp [cliNew], fun hbad => by simp [cliNew, hbad]⟩
  simp only [cliNew, hok, Bool.not_true, Bool.or_false, Bool.false_eq_true, if_false]
  exact ⟨(C19_write_read _ _ (dir ++ ["main.txt"]) _).1, trivial, fun q hq => (C19_write_read _ _ q _).2 hq⟩

end Duckling.Props.C19
