import Duckling.Model.Interp
import Duckling.Lemmas.LexName
/-
  C20 — identifier rules are enforced uniformly and accepted names are usable.

  * `C20_alphabet_documented`   the accepted characters regenerated from the source are letters, digits, `_`;
  * `C20_accept_iff`            `is_var(name, can_be_sys_var=False)` holds iff the name is non-empty, consists of
                                 accepted characters only and does not start with a digit (hence never with `$`);
  * `C20_var_rejects` / `C20_func_rejects` / `C20_param_rejects` / `C20_counter_rejects` / `C20_while_counter_rejects`
                                 each defining construct answers UnacceptableVarNameError for a name that fails
                                 `is_var`, and nothing is stored (the result is an error: there is no state);
  * `C20_sys_not_assignable`    a `$`-prefixed name fails `is_var … false`, so none of the constructs can define it;
  * `C20_exist_iff`             EXIST succeeds iff the name is a key of the visible variables.
  * `C20_readable`              **accepted names are usable**: for EVERY set of variables in scope — names that are prefixes or extensions
                                 of one another included, any number of them — the text of an accepted name that is in scope evaluates to that
                                 variable's value (`Tokenizer.tokenize`: the character scanner finds exactly one Variable token, then the lookup).
                                 The keyword matcher keeps the set of names that still have the consumed text as a prefix; the theorem is that
                                 invariant, by induction over the scanner's character loop (`lex_name`), including the two ways the token ends
                                 (the single remaining candidate is complete; the text ends while longer names are still candidates).
                                 Names whose first letter is `T` or `F` first enter the Boolean class and back-track: `C20_readable_tf` proves the
                                 same for every such name that departs from TRUE / FALSE before either ends (`Tab`, `Foo`, `TRx`, `FALx`, …: the
                                 Boolean class reads the agreeing characters, gives up at the departure, the scanner returns to the start of the
                                 name with that class black-listed, and the Variable class reads it).  What remains are exactly the names that are
                                 a prefix or an extension of TRUE / FALSE — the known finding D14, where the statement is false;
  * `C20_readable_in_state`     the same for `evalIn` on an interpreter state.
-/
namespace Duckling.Props.C20
open Duckling

theorem C20_alphabet_documented :
    Generated.acceptableVars = "abcdefghijklmnopqrstuvwxyzABCDEFGHIJKLMNOPQRSTUVWXYZ1234567890_" := by decide

theorem C20_accept_iff (name : Str) :
    isVar name false = true ↔
      name ≠ [] ∧ (∀ c ∈ name, acceptable c = true) ∧ (∀ c, name.head? = some c → isDigitC c = false) := by
  have hd : acceptable '$' = false := by decide
  match name with
  | [] => simp [isVar]
  | ['$'] => simp [isVar, hd]
  | '$' :: d :: ds => simp [isVar, hd]
  | c :: rest =>
    by_cases hc : c = '$'
    · subst hc
      cases rest with
      | nil => simp [isVar, hd]
      | cons d ds => simp [isVar, hd]
    · have hc' : (c == '$') = false := by simpa using hc
      have : isVar (c :: rest) false = ((!isDigitC c && acceptable c) && rest.all acceptable) := by
        unfold isVar
        split
        · next heq => simp at heq
        · next heq => simp at heq; exact absurd heq.1 hc
        · next c2 rest2 _ heq =>
          simp only [List.cons.injEq] at heq
          obtain ⟨rfl, rfl⟩ := heq
          simp [hc']
      rw [this]
      simp only [Bool.and_eq_true, Bool.not_eq_true', List.all_eq_true, ne_eq, reduceCtorEq, not_false_eq_true,
        List.mem_cons, forall_eq_or_imp, List.head?_cons, Option.some.injEq, forall_eq', true_and]
      constructor
      · rintro ⟨⟨h1, h2⟩, h3⟩; exact ⟨⟨h2, h3⟩, h1⟩
      · rintro ⟨⟨h2, h3⟩, h1⟩; exact ⟨⟨h1, h2⟩, h3⟩

theorem C20_sys_not_assignable (rest : Str) : isVar ('$' :: rest) false = false := by
  cases rest <;> simp [isVar]

theorem C20_empty_rejected : isVar [] false = false ∧ isVar [] true = false ∧ isVar ['$'] true = false := by
  simp [isVar]

/-- FUNC: an invalid function name or parameter name is UnacceptableVarNameError -/
theorem C20_func_rejects (ctx : Ctx) (c : ClsDesc) (word : Str) (line : Nat) (arg : Option Str) (block : List Node) (hb : Bool) (st : St)
    (hc : c.cname = "Func") (hfl : c.flipperOnly = false) (hreq : c.argReq = .required) (hstrip : c.strip = true)
    (a : Str) (ha : arg = some a) (hne : a ≠ [])
    (hbad : isVar (breakArg (strip a)).1 false = false) :
    blockPre ctx c word line arg block hb st = raise ctx ⟨line, none⟩ st .unacceptableVarName := by
  subst ha
  have : a.isEmpty = false := by cases a <;> simp_all
  simp [blockPre, funcPre, repeatPre, hc, hfl, hreq, hstrip, this, hbad]

/-- FUNC: an invalid parameter name is rejected as well (after the function name passed) -/
theorem C20_param_rejects (ctx : Ctx) (pos : Pos) (arg : Option Str) (block : List Node) (st : St) (vs : Str)
    (hname : isVar (breakArg (arg.getD [])).1 false = true) (hvs : (breakArg (arg.getD [])).2 = some vs) (hne : vs ≠ [])
    (hbad : ((splitChar ',' vs).map strip).all (fun p => isVar p false) = false) :
    funcPre ctx pos arg block st = raise ctx pos st .unacceptableVarName := by
  have : vs.isEmpty = false := by cases vs <;> simp_all
  simp [funcPre, hname, hvs, this, hbad]

/-- REPEAT / FOR: the counter name is checked before the first iteration, whatever the count -/
theorem C20_counter_rejects (ctx : Ctx) (c : ClsDesc) (word : Str) (line : Nat) (a : Str) (block : List Node) (st : St)
    (hc : c.cname = "Repeat") (hfl : c.flipperOnly = false) (hreq : c.argReq = .required) (hstrip : c.strip = true)
    (hne : a ≠ []) (v rest : Str) (hp : parseLoopArg (strip a) = (some v, rest)) (hbad : isVar v false = false) :
    blockPre ctx c word line (some a) block true st = raise ctx ⟨line, none⟩ st .unacceptableVarName := by
  have : a.isEmpty = false := by cases a <;> simp_all
  simp [blockPre, funcPre, repeatPre, hc, hfl, hreq, hstrip, this, hp, hbad]

/-- WHILE and loop iterations: binding the counter in the fresh stack rejects an invalid name -/
theorem C20_while_counter_rejects (ctx : Ctx) (pos : Pos) (st cst : St) (v : Str) (n : Nat) (hbad : isVar v false = false) :
    bindCounter ctx pos st (some v) n cst = raise ctx pos st .unacceptableVarName := by
  simp [bindCounter, hbad]

/-- VAR: an invalid name is rejected after the value was evaluated and before anything is stored -/
theorem C20_var_rejects (ctx : Ctx) (c : ClsDesc) (name : Str) (line : Nat) (a : Arg) (st : St) (nm value : Str) (v : Val)
    (hc : c.cname = "Var") (hh : hasHook c "run_compile" = true)
    (hs : splitWs1 a.str = some (nm, some value))
    (hv : tokenize st.env.allVars value = .ok v) (hbad : isVar nm false = false) :
    runCompileLocal ctx c name line (some a) st = raise ctx ⟨line, some a.orig⟩ st .unacceptableVarName := by
  simp [runCompileLocal, hc, hh, hs, evalIn, liftO, hv, bind, hbad]

/-- EXIST succeeds iff the name is visible -/
theorem C20_exist_iff (ctx : Ctx) (c : ClsDesc) (name : Str) (line : Nat) (a : Arg) (st : St)
    (hc : c.cname = "Exist") (hh : hasHook c "run_compile" = true) :
    (∃ r, runCompileLocal ctx c name line (some a) st = .ok r) ↔ assocHas st.env.allVars a.str = true := by
  by_cases h : assocHas st.env.allVars a.str = true
  · simp [runCompileLocal, hc, hh, h]
  · have h' : assocHas st.env.allVars a.str = false := by simpa using h
    simp [runCompileLocal, hc, hh, h', raise]

/-- the first character of an accepted name, unless it is `T` or `F`, is declined by the string, number and Boolean classes -/
theorem nameStart_of_acceptable (c : Char) (ha : acceptable c = true) (hd : isDigitC c = false) (hT : c ≠ 'T') (hF : c ≠ 'F') :
    NameStart c := by
  have hall : ∀ d ∈ Generated.acceptableVars.toList,
      (isSpace d == false && (d == '"') == false && (d == '-') == false && (d == '.') == false) = true := by decide
  have hmem : c ∈ Generated.acceptableVars.toList := by simpa [acceptable] using ha
  have h := hall c hmem
  simp only [Bool.and_eq_true, beq_iff_eq] at h
  exact ⟨h.1.1.1, h.1.1.2, hd, h.1.2, h.2, by simpa using hT, by simpa using hF⟩

theorem lookup_mem_keys (vars : VarEnv) (x : Str) (v : Val) (h : vars.lookup x = some v) : (vars.map (·.1)).contains x = true := by
  induction vars with
  | nil => simp at h
  | cons kv rest ih =>
    obtain ⟨k, w⟩ := kv
    simp only [List.lookup] at h
    split at h
    · rename_i heq
      have : x = k := by simpa using heq
      simp [this]
    · have := ih h
      simp only [List.map_cons, List.contains_cons, this, Bool.or_true]

/-- **an accepted name that is in scope reads back its value, whatever other names are in scope** -/
theorem C20_readable (vars : VarEnv) (x : Str) (v : Val) (hvar : isVar x false = true) (hv : vars.lookup x = some v)
    (hT : x.head? ≠ some 'T') (hF : x.head? ≠ some 'F') :
    tokenize vars x = .ok v.normalise := by
  obtain ⟨hne, hacc, hdig⟩ := (C20_accept_iff x).mp hvar
  cases x with
  | nil => exact absurd rfl hne
  | cons c rest =>
    have hc : NameStart c := nameStart_of_acceptable c (hacc c (by simp)) (hdig c rfl) (by simpa using hT) (by simpa using hF)
    exact tokenize_name vars (c :: rest) v hv (lookup_mem_keys vars _ v hv) (by simp) (by simpa using hc)

theorem C20_readable_in_state (ctx : Ctx) (pos : Pos) (st : St) (x : Str) (v : Val) (hvar : isVar x false = true)
    (hv : st.env.allVars.lookup x = some v) (hT : x.head? ≠ some 'T') (hF : x.head? ≠ some 'F') :
    evalIn ctx pos st x = .ok v.normalise := by
  unfold evalIn
  rw [C20_readable st.env.allVars x v hvar hv hT hF]
  rfl

/-- **names beginning with T or F** that depart from TRUE / FALSE before either ends read back their value too -/
theorem C20_readable_tf (vars : VarEnv) (x : Str) (v : Val) (hvar : isVar x false = true) (hv : vars.lookup x = some v)
    (B : Str) (hB : B = ['T', 'R', 'U', 'E'] ∨ B = ['F', 'A', 'L', 'S', 'E']) (d : Nat) (hd : Departs x B d) :
    tokenize vars x = .ok v.normalise := by
  obtain ⟨hne, hacc, hdig⟩ := (C20_accept_iff x).mp hvar
  have hlen : 0 < x.length := by have := hd.ltx; omega
  have hall : ∀ c ∈ Generated.acceptableVars.toList,
      (isSpace c == false && (c == '"') == false && (c == '-') == false && (c == '.') == false) = true := by decide
  have hx0mem : x[0] ∈ x := List.getElem_mem hlen
  have hacc0 : x[0] ∈ Generated.acceptableVars.toList := by simpa [acceptable] using hacc _ hx0mem
  have h := hall _ hacc0
  simp only [Bool.and_eq_true, beq_iff_eq] at h
  have hd0 : isDigitC x[0] = false := by
    apply hdig
    cases x with
    | nil => simp at hlen
    | cons a b => rfl
  have hc : NameStart0 (x[0]) := ⟨h.1.1.1, h.1.1.2, hd0, h.1.2, h.2⟩
  have hin := lookup_mem_keys vars x v hv
  apply tokenize_of_lex_var vars x v hv
  rcases hB with rfl | rfl
  · exact lex_name_tf _ x _ 0 (by decide) (by rw [boolKws_eq]; rfl) boolGivesUp_true d hd hin hc
  · exact lex_name_tf _ x _ 1 (by decide) (by rw [boolKws_eq]; rfl) boolGivesUp_false d hd hin hc

/-- non-vacuity: `Tab` departs from TRUE at its second character -/
example : Departs ['T', 'a', 'b'] ['T', 'R', 'U', 'E'] 1 :=
  ⟨by decide, by decide, by decide, by decide, fun _ _ => by simp⟩

/-- non-vacuity: `ab` among `a`, `ab`, `abc` (prefixes of one another) -/
example : isVar "ab".toList false = true ∧
    ([("a".toList, Val.int 1), ("ab".toList, Val.int 2), ("abc".toList, Val.int 3)] : VarEnv).lookup "ab".toList = some (.int 2) := by
  refine ⟨by decide, ?_⟩
  rfl

end Duckling.Props.C20
