import Duckling.Model.PyStr
/-
  Spec.Ducky — the FROZEN documented line language (mirrors /verif/spec/tables.json; never regenerated
  from the code under test): which output lines are legal for the commands DucklingScript validates.
-/
namespace Duckling.Spec
open Duckling

def noArgKeys : List String :=
  ["DOWNARROW", "DOWN", "LEFTARROW", "LEFT", "RIGHTARROW", "RIGHT", "UPARROW", "UP",
   "BREAK", "PAUSE", "CAPSLOCK", "DELETE", "END", "ESC", "ESCAPE", "HOME", "INSERT", "NUMLOCK",
   "PAGEUP", "PAGEDOWN", "PRINTSCREEN", "SCROLLLOCK", "SPACE", "TAB", "FN", "MENU", "ENTER"]

def fkeys : List String := ["F1", "F2", "F3", "F4", "F5", "F6", "F7", "F8", "F9", "F10", "F11", "F12"]
def altKeys : List String := ["END", "ESC", "ESCAPE", "SPACE", "TAB"] ++ fkeys
def ctrlKeys : List String := ["BREAK", "PAUSE", "ESCAPE", "ESC"] ++ fkeys
def shiftKeys : List String :=
  ["DELETE", "HOME", "INSERT", "PAGEUP", "PAGEDOWN", "WINDOWS", "GUI", "UPARROW", "DOWNARROW", "LEFTARROW", "RIGHTARROW", "TAB"]

/-- modifier name ↦ (listed keys, may carry a single character) -/
def modifiers : List (String × List String × Bool) :=
  [("ALT", altKeys, true), ("CTRL", ctrlKeys, true), ("CONTROL", ctrlKeys, true), ("SHIFT", shiftKeys, false),
   ("GUI", [], true), ("WINDOWS", [], true), ("META", [], true)]

def delayNames : List String := ["DELAY", "DEFAULT_DELAY", "DEFAULTDELAY"]
def oneCharOrBare : List String := ["CTRL-ALT", "CTRL-SHIFT", "ALT-SHIFT", "ALT-GUI", "GUI-SHIFT", "SYSRQ"]

/-- the argument grammar of a validated command: `none` = the word is not a validated command -/
def legalArg (w : String) (arg : Option Str) : Bool :=
  if noArgKeys.contains w then arg.isNone
  else match modifiers.find? (·.1 == w) with
    | some (_, ks, single) =>
      (match arg with
       | none => true
       | some a => (single && a.length == 1) || ks.contains (String.ofList (upper a)))
    | none =>
      if delayNames.contains w then (match arg with | some a => !a.isEmpty && a.all isDigitC | none => false)
      else if w == "ALTCHAR" then (match arg with | some a => !a.isEmpty && a.all isDigitC && a.length ≤ 4 | none => false)
      else if oneCharOrBare.contains w then (match arg with | none => true | some a => a.length == 1)
      else true

/-- an output line `WORD` or `WORD arg` (one separating space) -/
def legalLine (l : Str) : Bool :=
  let w := String.ofList (l.takeWhile (· != ' '))
  match l.dropWhile (· != ' ') with
  | [] => legalArg w none
  | _ :: rest => legalArg w (some rest)

/-- the words that exist only in DucklingScript (never in Rubber Ducky Script 1.0 / Flipper BadUSB) -/
def dsOnly : List String :=
  ["IF", "ELIF", "ELSE", "WHILE", "FUNC", "FUNCTION", "RUN", "VAR", "RETURN", "RET", "BREAKLOOP", "BREAK_LOOP", "CONTINUELOOP",
   "CONTINUE_LOOP", "CONTINUE", "PRINT", "PASS", "EXIST", "NOTEXIST", "NOT_EXIST", "START", "STARTENV", "STARTCODE", "IGNORE", "FOR",
   "WHITESPACE"]

/-- the commands only a Flipper Zero understands -/
def flipperWords : List String := ["ALTCHAR", "ALTSTRING", "ALTCODE"] ++ oneCharOrBare

/-- the first word of an output line -/
def firstWord (l : Str) : String := String.ofList (l.takeWhile (· != ' '))

/-- an output line whose first word is neither a DucklingScript-only keyword nor `$`-prefixed -/
def plainLine (l : Str) : Bool :=
  let w := l.takeWhile (· != ' ')
  !dsOnly.contains (String.ofList w) && w.head? != some '$'

end Duckling.Spec
