import Duckling.Model.Env
/-
  Spec.Scoped — the textbook semantics of block-scoped variables: a stack of frames, innermost first.  A name is looked up
  innermost-out; an assignment goes to the frame that owns the name, and a name that is visible nowhere is created in the innermost
  frame; entering a block pushes an empty frame, leaving it pops the frame (what the block created dies with it).
  The compiler does none of this: it COPIES the variables into a fresh environment when a block is entered and copies the values
  of the names the parent already had back when the block is left.  `Props/C08.lean` proves that the two are the same.
-/
namespace Duckling.Spec

abbrev Frame := List (Str × Val)

def lookup : List Frame → Str → Option Val
  | [], _ => none
  | f :: rest, k => match assocGet f k with
    | some v => some v
    | none => lookup rest k

def owns (fr : List Frame) (k : Str) : Bool := (lookup fr k).isSome

/-- assign-or-create -/
def assign : List Frame → Str → Val → List Frame
  | [], k, v => [[(k, v)]]
  | f :: rest, k, v =>
    if assocHas f k then assocSet f k v :: rest
    else if owns rest k then f :: assign rest k v
    else assocSet f k v :: rest

/-- what a program does to its variables -/
inductive ScOp
  | assign (k : Str) (v : Val)      -- VAR, a loop counter, a parameter
  | enter                           -- a block is entered (IF/loop body, function body, STARTCODE file)
  | exit                            -- it is left, on any exit path
deriving Repr

def step : List Frame → ScOp → List Frame
  | fr, .assign k v => assign fr k v
  | fr, .enter => [] :: fr
  | _ :: p :: rest, .exit => p :: rest
  | fr, .exit => fr

end Duckling.Spec
