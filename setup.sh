#!/bin/sh
# Build the framework from files on disk only: regenerate the tables from /repo, build the Lean
# library (model + all property theorems) and the model driver, run the harness self-test.
set -e
cd "$(dirname "$0")"
export HOME="${HOME:-/tmp}"
SCRATCH=$(mktemp -d)
HOME="$SCRATCH" /venv/bin/python harness/translate.py --repo "${VERIF_REPO:-/repo}"
rm -rf "$SCRATCH"
cd lean
lake build dmodel
lake build Duckling
cd ..
/venv/bin/python harness/selftest.py
